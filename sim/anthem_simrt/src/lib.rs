//! Simulated runtime underneath anthem's seams.
//!
//! anthem (built with `--cfg anthem_verif`) reaches these items through `crate::verif::sim`:
//! `ThreadPool`, `channel`, `Command`, `Stdio`, `Instant`, `num_cpus`, `print!`, `println!`, `argv`.
pub mod clock;
pub mod plan;
pub mod process;
pub mod sched;
pub mod state;

pub use clock::Instant;
pub use process::{Command, Stdio};
pub use tpool_shuttle::ThreadPool;

/// `std::sync::mpsc::channel`, as modelled by shuttle (every send/recv is a scheduling point).
pub fn channel<T>() -> (shuttle::sync::mpsc::Sender<T>, shuttle::sync::mpsc::Receiver<T>) {
    state::with(|s| {
        s.channels += 1;
        s.event(|| "channel".into());
    });
    shuttle::sync::mpsc::channel()
}

pub mod num_cpus {
    /// The simulated CPU count.
    pub fn get() -> usize {
        let n = sim_cpus::get();
        crate::state::with(|s| {
            s.cpu_reads += 1;
            s.event(|| format!("num_cpus {n}"));
        });
        n
    }
}

/// argv for `Arguments::parse()`.
pub fn argv() -> Vec<std::ffi::OsString> {
    state::with(|s| {
        s.argv_reads += 1;
        s.scenario
            .as_ref()
            .expect("no scenario installed: anthem::main() called outside a simulation")
            .argv
            .iter()
            .map(Into::into)
            .collect()
    })
}

#[doc(hidden)]
pub fn emit(args: std::fmt::Arguments<'_>, newline: bool) {
    // Format first: Display impls must not run while the simulation state is borrowed.
    let mut text = std::fmt::format(args);
    if newline {
        text.push('\n');
    }
    state::with(|s| {
        let n = text.len();
        s.stdout.extend_from_slice(text.as_bytes());
        s.event_k([2, n as u64, 0, 0], || format!("print {n}"));
    });
}

#[macro_export]
macro_rules! sim_print {
    ($($arg:tt)*) => {
        $crate::emit(::std::format_args!($($arg)*), false)
    };
}

#[macro_export]
macro_rules! sim_println {
    () => {
        $crate::emit(::std::format_args!(""), true)
    };
    ($($arg:tt)*) => {
        $crate::emit(::std::format_args!($($arg)*), true)
    };
}

pub use sim_print as print;
pub use sim_println as println;
