//! The simulated prover process: `Command`/`Stdio`/`Child`/`ChildStdin` with the method surface of
//! `std::process` that anthem uses, backed by a shuttle thread per child and a bounded stdin pipe.
use crate::plan::{Exit, Fault, Outcome, content_key};
use crate::state::{self, ChildRec};
use shuttle::sync::{Arc, Condvar, Mutex};
use std::collections::VecDeque;
use std::ffi::OsStr;
use std::io;
use std::os::unix::process::ExitStatusExt;
use std::process::{ExitStatus, Output};
use std::time::Duration;

pub const ENOENT: i32 = 2;
pub const EINTR: i32 = 4;
pub const EIO: i32 = 5;
pub const ECHILD: i32 = 10;
pub const EAGAIN: i32 = 11;
pub const ENOMEM: i32 = 12;
pub const EPIPE: i32 = 32;

/// A scheduling point that leaves priorities alone (shuttle's `sleep` is a plain context switch).
pub fn sim_point() {
    shuttle::thread::sleep(Duration::ZERO);
}

#[derive(Clone, Copy, Debug, PartialEq, Eq)]
enum StdioKind {
    Inherit,
    Piped,
    Null,
}

#[derive(Debug)]
pub struct Stdio(StdioKind);

impl Stdio {
    pub fn piped() -> Stdio {
        Stdio(StdioKind::Piped)
    }
    pub fn null() -> Stdio {
        Stdio(StdioKind::Null)
    }
    pub fn inherit() -> Stdio {
        Stdio(StdioKind::Inherit)
    }
}

#[derive(Debug)]
pub struct Command {
    program: String,
    args: Vec<String>,
    envs: Vec<(String, String)>,
    stdin: StdioKind,
    stdout: StdioKind,
    stderr: StdioKind,
}

struct Inner {
    pipe: VecDeque<u8>,
    cap: usize,
    writer_closed: bool,
    reader_closed: bool,
    exited: bool,
    /// Bytes the child has written to stdout/stderr that the parent has not read yet (bounded like a kernel pipe).
    out: VecDeque<u8>,
    err: VecDeque<u8>,
    out_cap: usize,
    /// The parent still holds the read end.
    out_open: bool,
    err_open: bool,
    status_raw: i32,
}

struct Shared {
    m: Mutex<Inner>,
    cv: Condvar,
}

pub struct ChildStdin {
    ord: usize,
    sh: Arc<Shared>,
    calls: usize,
    write_fault: Option<(usize, i32)>,
}

/// Read end handed out in `Child::stdout` / `Child::stderr`; yields the child's output once it exited.
pub struct ChildPipeOut {
    sh: Arc<Shared>,
    is_err: bool,
    pos: usize,
}

pub struct Child {
    pub stdin: Option<ChildStdin>,
    pub stdout: Option<ChildPipeOut>,
    pub stderr: Option<ChildPipeOut>,
    ord: usize,
    sh: Arc<Shared>,
    piped_out: bool,
    piped_err: bool,
    reaped: bool,
    wait_fault: Option<i32>,
}

fn rec<R>(ord: usize, f: impl FnOnce(&mut ChildRec) -> R) -> R {
    state::with(|s| f(&mut s.children[ord]))
}

impl Command {
    pub fn new<S: AsRef<OsStr>>(program: S) -> Command {
        Command {
            program: program.as_ref().to_string_lossy().into_owned(),
            args: vec![],
            envs: vec![],
            stdin: StdioKind::Inherit,
            stdout: StdioKind::Inherit,
            stderr: StdioKind::Inherit,
        }
    }

    pub fn arg<S: AsRef<OsStr>>(&mut self, arg: S) -> &mut Command {
        self.args.push(arg.as_ref().to_string_lossy().into_owned());
        self
    }

    pub fn args<I, S>(&mut self, args: I) -> &mut Command
    where
        I: IntoIterator<Item = S>,
        S: AsRef<OsStr>,
    {
        for a in args {
            self.arg(a);
        }
        self
    }

    /// Environment and working directory do not influence the simulated prover; accepted and recorded.
    pub fn env<K: AsRef<OsStr>, V: AsRef<OsStr>>(&mut self, key: K, val: V) -> &mut Command {
        self.envs.push((key.as_ref().to_string_lossy().into_owned(), val.as_ref().to_string_lossy().into_owned()));
        self
    }

    pub fn envs<I, K, V>(&mut self, vars: I) -> &mut Command
    where
        I: IntoIterator<Item = (K, V)>,
        K: AsRef<OsStr>,
        V: AsRef<OsStr>,
    {
        for (k, v) in vars {
            self.env(k, v);
        }
        self
    }

    pub fn env_remove<K: AsRef<OsStr>>(&mut self, _key: K) -> &mut Command {
        self
    }

    pub fn env_clear(&mut self) -> &mut Command {
        self.envs.clear();
        self
    }

    pub fn current_dir<P: AsRef<std::path::Path>>(&mut self, _dir: P) -> &mut Command {
        self
    }

    pub fn get_program(&self) -> &OsStr {
        OsStr::new(&self.program)
    }

    pub fn status(&mut self) -> io::Result<ExitStatus> {
        self.spawn()?.wait()
    }

    pub fn stdin<T: Into<Stdio>>(&mut self, cfg: T) -> &mut Command {
        self.stdin = cfg.into().0;
        self
    }

    pub fn stdout<T: Into<Stdio>>(&mut self, cfg: T) -> &mut Command {
        self.stdout = cfg.into().0;
        self
    }

    pub fn stderr<T: Into<Stdio>>(&mut self, cfg: T) -> &mut Command {
        self.stderr = cfg.into().0;
        self
    }

    pub fn spawn(&mut self) -> io::Result<Child> {
        sim_point();
        // Decide the fate of this attempt from the plan.
        let (ord, fault, cap, all) = state::with(|s| {
            let ord = s.children.len();
            let plan = s.plan();
            let all = plan.spawn_all_enoent;
            let fault = if plan.spawn_all_enoent {
                Some(Fault::SpawnErr { errno: ENOENT })
            } else {
                plan.faults.get(&ord).cloned()
            };
            let cap = plan.pipe_capacity.max(1);
            s.children.push(ChildRec {
                ordinal: ord,
                program: self.program.clone(),
                args: self.args.clone(),
                piped: (
                    self.stdin == StdioKind::Piped,
                    self.stdout == StdioKind::Piped,
                    self.stderr == StdioKind::Piped,
                ),
                ..ChildRec::default()
            });
            (ord, fault, cap, all)
        });

        if let Some(Fault::SpawnErr { errno }) = fault {
            state::with(|s| {
                s.children[ord].spawn_err = Some(errno);
                s.children[ord].fault_fired = Some(format!("{}:{errno}", if all { "spawn_enoent_all" } else { "spawn_err" }));
                s.event(|| format!("spawn #{ord} {} -> errno {errno}", self.program));
            });
            return Err(io::Error::from_raw_os_error(errno));
        }

        let sh = Arc::new(Shared {
            m: Mutex::new(Inner {
                pipe: VecDeque::new(),
                cap,
                // a child whose stdin is not a pipe sees EOF at once
                writer_closed: self.stdin != StdioKind::Piped,
                reader_closed: false,
                exited: false,
                out: VecDeque::new(),
                err: VecDeque::new(),
                out_cap: 65536,
                out_open: self.stdout == StdioKind::Piped,
                err_open: self.stderr == StdioKind::Piped,
                status_raw: 0,
            }),
            cv: Condvar::new(),
        });

        state::with(|s| {
            s.alive += 1;
            s.max_alive = s.max_alive.max(s.alive);
            s.children[ord].spawn_clock_ms = s.clock_ms;
            let args = self.args.join(" ");
            s.event(|| format!("spawn #{ord} {} {args}", self.program));
        });

        let early = match &fault {
            Some(Fault::EarlyExit { after, stdout, exit }) => Some((*after, stdout.clone(), *exit)),
            _ => None,
        };
        let sh_child = sh.clone();
        shuttle::thread::Builder::new()
            .name(format!("vampire-{ord}"))
            .spawn(move || child_main(ord, sh_child, early))
            .expect("simulated spawn");

        let write_fault = match fault {
            Some(Fault::WriteErr { nth, errno }) => Some((nth, errno)),
            _ => None,
        };
        let wait_fault = match fault {
            Some(Fault::WaitErr { errno }) => Some(errno),
            _ => None,
        };
        Ok(Child {
            stdin: (self.stdin == StdioKind::Piped).then(|| ChildStdin {
                ord,
                sh: sh.clone(),
                calls: 0,
                write_fault,
            }),
            stdout: (self.stdout == StdioKind::Piped).then(|| ChildPipeOut {
                sh: sh.clone(),
                is_err: false,
                pos: 0,
            }),
            stderr: (self.stderr == StdioKind::Piped).then(|| ChildPipeOut {
                sh: sh.clone(),
                is_err: true,
                pos: 0,
            }),
            ord,
            sh,
            piped_out: self.stdout == StdioKind::Piped,
            piped_err: self.stderr == StdioKind::Piped,
            reaped: false,
            wait_fault,
        })
    }

    pub fn output(&mut self) -> io::Result<Output> {
        self.stdin(Stdio::null());
        self.stdout(Stdio::piped());
        self.stderr(Stdio::piped());
        self.spawn()?.wait_with_output()
    }
}

fn child_main(ord: usize, sh: Arc<Shared>, early: Option<(usize, Vec<u8>, Exit)>) {
    let chunk = state::with(|s| s.plan().read_chunk.max(1));
    let limit = early.as_ref().map(|e| e.0);
    let mut input: Vec<u8> = vec![];
    let mut eof = false;

    // Read phase.
    loop {
        if let Some(limit) = limit {
            if input.len() >= limit {
                break;
            }
        }
        let mut g = sh.m.lock().unwrap();
        while g.pipe.is_empty() && !g.writer_closed {
            g = sh.cv.wait(g).unwrap();
        }
        if g.pipe.is_empty() {
            eof = true;
            break;
        }
        let mut want = chunk.min(g.pipe.len());
        if let Some(limit) = limit {
            want = want.min(limit - input.len());
        }
        input.extend(g.pipe.drain(..want));
        sh.cv.notify_all();
        drop(g);
        state::with(|s| s.event_k([3, ord as u64, want as u64, 0], || format!("child #{ord} read {want}")));
    }

    // The child stops reading: close its end (pending writes get EPIPE from now on).
    {
        let mut g = sh.m.lock().unwrap();
        g.reader_closed = true;
        g.pipe.clear();
        sh.cv.notify_all();
    }

    let (outcome, fault_name): (Outcome, Option<String>) = match (&early, eof) {
        (Some((after, stdout, exit)), false) => (
            Outcome {
                class: "early_exit".into(),
                proven: false,
                stdout: stdout.clone(),
                stderr: vec![],
                exit: *exit,
                compute_steps: 0,
                sim_ms: 0,
            },
            Some(format!("early_exit:{after}")),
        ),
        _ => state::with(|s| {
            let plan = s.plan();
            let o = plan.outcomes.get(&content_key(&input)).cloned().unwrap_or_else(|| plan.foreign.clone());
            (o, None)
        }),
    };

    for _ in 0..outcome.compute_steps {
        sim_point();
    }

    state::with(|s| {
        let seq = s.event(|| {
            format!(
                "child #{ord} exit class={} read={} eof={eof} status={:?}",
                outcome.class,
                input.len(),
                outcome.exit
            )
        });
        s.clock_ms += outcome.sim_ms;
        s.alive = s.alive.saturating_sub(1);
        let c = &mut s.children[ord];
        c.stdin_len = input.len();
        c.stdin = std::mem::take(&mut input);
        c.eof = eof;
        c.outcome_class = Some(outcome.class.clone());
        c.outcome_proven = outcome.proven && eof;
        c.exited = true;
        c.exit_seq = seq;
        c.sim_ms = outcome.sim_ms;
        if let Some(f) = fault_name {
            c.fault_fired = Some(f);
        }
    });

    // Write stdout, then stderr, through pipes of kernel size: a child that prints more than the parent
    // reads blocks, exactly like a real prover whose parent polls without draining the pipes.
    let mut blocked_on_output = false;
    let out_piece = state::with(|s| s.plan().out_piece);
    for (is_err, data) in [(false, &outcome.stdout), (true, &outcome.stderr)] {
        let mut pos = 0;
        while pos < data.len() {
            let mut g = sh.m.lock().unwrap();
            loop {
                let (len, open) = if is_err { (g.err.len(), g.err_open) } else { (g.out.len(), g.out_open) };
                if !open || len < g.out_cap {
                    break;
                }
                blocked_on_output = true;
                g = sh.cv.wait(g).unwrap();
            }
            let open = if is_err { g.err_open } else { g.out_open };
            if !open {
                // nobody will ever read this stream (not a pipe, or the read end is gone)
                break;
            }
            let space = g.out_cap - if is_err { g.err.len() } else { g.out.len() };
            let mut n = space.min(data.len() - pos);
            if out_piece > 0 {
                // at most 64 pieces per stream, so that a long proof does not cost scheduler steps without end
                n = n.min(out_piece.max(data.len() / 64));
            }
            if is_err {
                g.err.extend(&data[pos..pos + n]);
            } else {
                g.out.extend(&data[pos..pos + n]);
            }
            pos += n;
            sh.cv.notify_all();
        }
    }
    if blocked_on_output {
        state::with(|s| {
            s.children[ord].output_blocked = true;
            s.event(|| format!("child #{ord} blocked on a full output pipe"));
        });
    }
    let mut g = sh.m.lock().unwrap();
    if !g.exited {
        // (a killed child keeps the status the kill gave it)
        g.status_raw = outcome.exit.raw();
        g.exited = true;
    }
    sh.cv.notify_all();
}

impl io::Write for ChildStdin {
    fn write(&mut self, buf: &[u8]) -> io::Result<usize> {
        if buf.is_empty() {
            return Ok(0);
        }
        let ord = self.ord;
        let call = self.calls;
        self.calls += 1;

        let (yield_every, eintr, short, fault) = state::with(|s| {
            let plan = s.plan();
            let eintr = plan.eintr_pct > 0 && s.draw_pct(0xe1, ord as u64, call as u64) < plan.eintr_pct as u64;
            let short = plan.short_write_pct > 0
                && s.draw_pct(0x5a, ord as u64, call as u64) < plan.short_write_pct as u64;
            let fault = self.write_fault.and_then(|(n, e)| (n == call).then_some(e));
            let every = plan.write_yield_every;
            s.children[ord].writes += 1;
            (every, eintr, short, fault)
        });

        if yield_every > 0 && call as u32 % yield_every == 0 {
            sim_point();
        }

        if let Some(errno) = fault {
            state::with(|s| {
                s.children[ord].write_err = Some(errno);
                s.children[ord].fault_fired = Some(format!("write_err:{errno}@{call}"));
                s.event(|| format!("write #{ord} call {call} len {} -> errno {errno}", buf.len()));
            });
            return Err(io::Error::from_raw_os_error(errno));
        }

        if eintr {
            rec(ord, |c| c.eintrs += 1);
            state::with(|s| s.event_k([4, ord as u64, call as u64, 0], || format!("write #{ord} call {call} -> EINTR")));
            return Err(io::Error::from_raw_os_error(EINTR));
        }

        let mut g = self.sh.m.lock().unwrap();
        let mut blocked = false;
        while !g.reader_closed && g.pipe.len() >= g.cap {
            blocked = true;
            g = self.sh.cv.wait(g).unwrap();
        }
        if g.reader_closed {
            drop(g);
            state::with(|s| {
                s.children[ord].epipe = true;
                s.children[ord].write_err.get_or_insert(EPIPE);
                s.event(|| format!("write #{ord} call {call} len {} -> EPIPE", buf.len()));
            });
            return Err(io::Error::from_raw_os_error(EPIPE));
        }
        let space = g.cap - g.pipe.len();
        let mut n = buf.len().min(space);
        let mut was_short = false;
        if short && n > 1 {
            n = 1 + (state::with(|s| s.draw(0x5b, ord as u64, call as u64)) as usize) % (n - 1);
            was_short = true;
        }
        g.pipe.extend(&buf[..n]);
        self.sh.cv.notify_all();
        drop(g);
        state::with(|s| {
            let c = &mut s.children[ord];
            if blocked {
                c.writer_blocked += 1;
            }
            if was_short || n < buf.len() {
                c.short_writes += 1;
            }
            s.event_k([5, ord as u64, ((call as u64) << 32) | buf.len() as u64, n as u64], || format!("write #{ord} call {call} len {} -> {n}", buf.len()));
        });
        Ok(n)
    }

    fn flush(&mut self) -> io::Result<()> {
        Ok(())
    }
}

impl Drop for ChildStdin {
    fn drop(&mut self) {
        let ord = self.ord;
        // Closing is not a blocking call, but the reader's wake-up is a scheduling decision.
        if let Ok(mut g) = self.sh.m.lock() {
            g.writer_closed = true;
            self.sh.cv.notify_all();
        }
        state::with(|s| {
            s.children[ord].stdin_closed = true;
            s.event(|| format!("close-stdin #{ord}"));
        });
    }
}

impl io::Read for ChildPipeOut {
    fn read(&mut self, buf: &mut [u8]) -> io::Result<usize> {
        if buf.is_empty() {
            return Ok(0);
        }
        let mut g = self.sh.m.lock().unwrap();
        loop {
            let empty = if self.is_err { g.err.is_empty() } else { g.out.is_empty() };
            if !empty || g.exited {
                break;
            }
            g = self.sh.cv.wait(g).unwrap();
        }
        let q = if self.is_err { &mut g.err } else { &mut g.out };
        let n = buf.len().min(q.len());
        for (i, b) in q.drain(..n).enumerate() {
            buf[i] = b;
        }
        self.pos += n;
        self.sh.cv.notify_all();
        Ok(n)
    }
}

impl Drop for ChildPipeOut {
    fn drop(&mut self) {
        if let Ok(mut g) = self.sh.m.lock() {
            if self.is_err {
                g.err_open = false;
            } else {
                g.out_open = false;
            }
            self.sh.cv.notify_all();
        }
    }
}

impl Child {
    pub fn id(&self) -> u32 {
        10_000 + self.ord as u32
    }

    fn wait_exited(&mut self) -> io::Result<ExitStatus> {
        let ord = self.ord;
        sim_point();
        let fault = self.wait_fault;
        if let Some(errno) = fault {
            state::with(|s| {
                s.children[ord].wait_err = Some(errno);
                s.children[ord].fault_fired = Some(format!("wait_err:{errno}"));
                s.event(|| format!("wait #{ord} -> errno {errno}"));
            });
            return Err(io::Error::from_raw_os_error(errno));
        }
        let mut g = self.sh.m.lock().unwrap();
        while !g.exited {
            g = self.sh.cv.wait(g).unwrap();
        }
        let raw = g.status_raw;
        drop(g);
        self.reaped = true;
        state::with(|s| {
            let c = &mut s.children[ord];
            c.waited = true;
            // The answer can reach anthem: the child read everything, its stdout is a pipe anthem
            // holds, and no fault was injected on the way.
            c.delivered_proven = c.outcome_proven && c.piped.1 && c.fault_fired.is_none();
            s.event(|| format!("wait #{ord} -> status {raw:#x}"));
        });
        Ok(ExitStatus::from_raw(raw))
    }

    pub fn wait(&mut self) -> io::Result<ExitStatus> {
        drop(self.stdin.take());
        self.wait_exited()
    }

    pub fn try_wait(&mut self) -> io::Result<Option<ExitStatus>> {
        sim_point();
        let exited = self.sh.m.lock().unwrap().exited;
        if exited { self.wait_exited().map(Some) } else { Ok(None) }
    }

    /// SIGKILL: the child stops wherever it is; its pending output stays readable, it exits with signal 9.
    pub fn kill(&mut self) -> io::Result<()> {
        let ord = self.ord;
        let mut g = self.sh.m.lock().unwrap();
        if !g.exited {
            g.exited = true;
            g.status_raw = 9;
            g.reader_closed = true;
            g.out_open = false;
            g.err_open = false;
            self.sh.cv.notify_all();
            drop(g);
            state::with(|s| {
                s.children[ord].killed = true;
                s.children[ord].killed_clock_ms = s.clock_ms;
                s.event(|| format!("kill #{ord}"));
            });
        }
        Ok(())
    }

    pub fn wait_with_output(mut self) -> io::Result<Output> {
        drop(self.stdin.take());
        // like std: read both pipes to the end (concurrently), then reap
        let mut stdout = vec![];
        let mut stderr = vec![];
        let (read_out, read_err) = (self.stdout.is_some(), self.stderr.is_some());
        if self.wait_fault.is_none() {
            let mut g = self.sh.m.lock().unwrap();
            loop {
                if read_out {
                    stdout.extend(g.out.drain(..));
                }
                if read_err {
                    stderr.extend(g.err.drain(..));
                }
                self.sh.cv.notify_all();
                if g.exited && (!read_out || g.out.is_empty()) && (!read_err || g.err.is_empty()) {
                    break;
                }
                g = self.sh.cv.wait(g).unwrap();
            }
        }
        let status = self.wait_exited()?;
        Ok(Output { status, stdout, stderr })
    }
}
