//! Simulated monotonic clock (logical milliseconds).
use crate::state;
use std::time::Duration;

#[derive(Clone, Copy, Debug, PartialEq, Eq, PartialOrd, Ord)]
pub struct Instant {
    ms: u64,
}

impl Instant {
    pub fn now() -> Instant {
        let ms = state::with(|s| {
            s.clock_reads += 1;
            let n = s.clock_reads;
            let plan = s.plan();
            let mut step = plan.clock_step_ms;
            if plan.clock_jump_pct > 0 && s.draw_pct(0xc10c, n, 0) < plan.clock_jump_pct as u64 {
                step += s.draw(0xc10c, n, 1) % 3_600_000;
                s.clock_jumps += 1;
            }
            s.clock_ms += step;
            let ms = s.clock_ms;
            s.event_k([1, ms, 0, 0], || format!("now {ms}"));
            ms
        });
        Instant { ms }
    }

    pub fn elapsed(&self) -> Duration {
        Instant::now().duration_since(*self)
    }

    pub fn duration_since(&self, earlier: Instant) -> Duration {
        Duration::from_millis(self.ms.saturating_sub(earlier.ms))
    }
}

impl std::ops::Sub<Instant> for Instant {
    type Output = Duration;
    fn sub(self, other: Instant) -> Duration {
        self.duration_since(other)
    }
}
