//! Data that fully describes one simulated execution (together with the scheduler decisions).
use serde::{Deserialize, Serialize};
use std::collections::BTreeMap;

/// Bytes as lowercase hex in JSON (replay files stay readable and exact for non-UTF-8 noise).
pub mod hexbytes {
    use serde::{Deserialize, Deserializer, Serializer};
    pub fn serialize<S: Serializer>(b: &Vec<u8>, s: S) -> Result<S::Ok, S::Error> {
        // printable ASCII is kept as text behind a "t:" prefix, anything else as hex behind "x:"
        if b.iter().all(|c| (0x20..0x7f).contains(c) || *c == b'\n') {
            s.serialize_str(&format!("t:{}", String::from_utf8_lossy(b)))
        } else {
            let mut out = String::with_capacity(2 + b.len() * 2);
            out.push_str("x:");
            for c in b {
                out.push_str(&format!("{c:02x}"));
            }
            s.serialize_str(&out)
        }
    }
    pub fn deserialize<'de, D: Deserializer<'de>>(d: D) -> Result<Vec<u8>, D::Error> {
        let s = String::deserialize(d)?;
        if let Some(t) = s.strip_prefix("t:") {
            Ok(t.as_bytes().to_vec())
        } else if let Some(x) = s.strip_prefix("x:") {
            (0..x.len() / 2)
                .map(|i| u8::from_str_radix(&x[2 * i..2 * i + 2], 16).map_err(serde::de::Error::custom))
                .collect()
        } else {
            Err(serde::de::Error::custom("bytes must start with t: or x:"))
        }
    }
}

#[derive(Clone, Copy, Debug, PartialEq, Eq, Serialize, Deserialize)]
pub enum Exit {
    Code(i32),
    Signal(i32),
}

impl Exit {
    /// The raw `wait(2)` status.
    pub fn raw(self) -> i32 {
        match self {
            Exit::Code(c) => (c & 0xff) << 8,
            Exit::Signal(s) => s & 0x7f,
        }
    }
}

/// What the simulated prover does with one problem it has read completely.
#[derive(Clone, Debug, Serialize, Deserialize)]
pub struct Outcome {
    /// Outcome class name (for the evidence and the oracle's bookkeeping).
    pub class: String,
    /// Whether, per the property statement, this run "printed SZS status Theorem".
    pub proven: bool,
    #[serde(with = "hexbytes")]
    pub stdout: Vec<u8>,
    #[serde(with = "hexbytes")]
    pub stderr: Vec<u8>,
    pub exit: Exit,
    /// Scheduling points the child passes between reading its input and answering ("delay").
    pub compute_steps: u32,
    /// Simulated milliseconds the child "ran".
    pub sim_ms: u64,
}

/// A fault attached to the k-th spawn attempt of the execution.
#[derive(Clone, Debug, Serialize, Deserialize)]
pub enum Fault {
    /// `spawn()` fails with this errno.
    SpawnErr { errno: i32 },
    /// The n-th `write` call on this child's stdin (0-based, counting calls that reach the pipe) fails.
    WriteErr { nth: usize, errno: i32 },
    /// `wait_with_output()` fails with this errno (the child's output is lost).
    WaitErr { errno: i32 },
    /// The child stops reading after `after` bytes, prints `stdout` and exits.
    EarlyExit {
        after: usize,
        #[serde(with = "hexbytes")]
        stdout: Vec<u8>,
        exit: Exit,
    },
}

impl Fault {
    pub fn kind(&self) -> &'static str {
        match self {
            Fault::SpawnErr { .. } => "spawn_err",
            Fault::WriteErr { .. } => "write_err",
            Fault::WaitErr { .. } => "wait_err",
            Fault::EarlyExit { .. } => "early_exit",
        }
    }
}

#[derive(Clone, Debug, Serialize, Deserialize)]
pub struct Plan {
    /// Outcome per problem, keyed by `content_key(bytes)` of the reference emission.
    pub outcomes: BTreeMap<String, Outcome>,
    /// Outcome for input that is none of the reference problems (always not proven).
    pub foreign: Outcome,
    /// Faults by spawn ordinal.
    pub faults: BTreeMap<usize, Fault>,
    /// Every spawn fails with ENOENT ("no vampire on PATH").
    pub spawn_all_enoent: bool,
    /// Capacity of each child's stdin pipe in bytes.
    pub pipe_capacity: usize,
    /// Percentage of writes that are cut short (benign: `write_all` continues).
    pub short_write_pct: u8,
    /// Percentage of writes that first fail with EINTR (benign: `write_all` retries).
    pub eintr_pct: u8,
    /// Largest number of bytes a child takes from its pipe per read.
    pub read_chunk: usize,
    /// Largest number of bytes a child puts into its stdout/stderr pipe per write (a prover that flushes in the
    /// middle of a line; 0 = as much as fits). Benign: what anthem reads in total is the same.
    #[serde(default)]
    pub out_piece: usize,
    /// A write that does not block is a scheduling point every this many calls (0 = never).
    pub write_yield_every: u32,
    /// Simulated clock advance per `Instant::now()`.
    pub clock_step_ms: u64,
    /// Percentage of `Instant::now()` calls that jump the clock forward by up to an hour.
    pub clock_jump_pct: u8,
    /// Key for the stateless per-site draws (short writes, EINTR, jumps).
    pub draw_seed: u64,
}

impl Plan {
    pub fn quiet() -> Plan {
        Plan {
            outcomes: BTreeMap::new(),
            foreign: Outcome {
                class: "foreign".into(),
                proven: false,
                stdout: b"% SZS status GaveUp for foreign\n".to_vec(),
                stderr: vec![],
                exit: Exit::Code(1),
                compute_steps: 0,
                sim_ms: 1,
            },
            faults: BTreeMap::new(),
            spawn_all_enoent: false,
            pipe_capacity: 65536,
            short_write_pct: 0,
            eintr_pct: 0,
            read_chunk: 65536,
            out_piece: 0,
            write_yield_every: 0,
            clock_step_ms: 1,
            clock_jump_pct: 0,
            draw_seed: 0,
        }
    }
}

/// FNV-1a, 64 bit. Only an index into the plan; the oracle compares full byte strings.
pub fn content_key(bytes: &[u8]) -> String {
    let mut h: u64 = 0xcbf29ce484222325;
    for b in bytes {
        h ^= *b as u64;
        h = h.wrapping_mul(0x100000001b3);
    }
    format!("{h:016x}:{}", bytes.len())
}

/// SplitMix64 finaliser: the one mixing function used for every derived seed and draw.
pub fn mix(mut z: u64) -> u64 {
    z = z.wrapping_add(0x9e3779b97f4a7c15);
    z = (z ^ (z >> 30)).wrapping_mul(0xbf58476d1ce4e5b9);
    z = (z ^ (z >> 27)).wrapping_mul(0x94d049bb133111eb);
    z ^ (z >> 31)
}

pub fn mix2(a: u64, b: u64) -> u64 {
    mix(mix(a) ^ b.wrapping_mul(0x9e3779b97f4a7c15))
}

pub fn mix3(a: u64, b: u64, c: u64) -> u64 {
    mix2(mix2(a, b), c)
}

/// A tiny deterministic PRNG (SplitMix64 stream).
#[derive(Clone, Debug)]
pub struct Rng(pub u64);

impl Rng {
    pub fn new(seed: u64) -> Rng {
        Rng(mix(seed))
    }
    pub fn next(&mut self) -> u64 {
        self.0 = self.0.wrapping_add(0x9e3779b97f4a7c15);
        let mut z = self.0;
        z = (z ^ (z >> 30)).wrapping_mul(0xbf58476d1ce4e5b9);
        z = (z ^ (z >> 27)).wrapping_mul(0x94d049bb133111eb);
        z ^ (z >> 31)
    }
    /// Uniform in 0..n (n > 0).
    pub fn below(&mut self, n: u64) -> u64 {
        self.next() % n
    }
    pub fn pct(&mut self, p: u64) -> bool {
        self.below(100) < p
    }
    pub fn pick<'a, T>(&mut self, xs: &'a [T]) -> &'a T {
        &xs[self.below(xs.len() as u64) as usize]
    }
}
