//! The per-simulation state: scenario in, event log and child records out.
//!
//! It is thread-local to the OS thread that drives the shuttle runner; all simulated threads of an
//! execution are coroutines on that OS thread, so they share it. A borrow is never held across a
//! scheduling point.
use crate::plan::{Plan, mix3};
use serde::{Deserialize, Serialize};
use std::cell::RefCell;

#[derive(Clone, Debug, Serialize, Deserialize)]
pub struct Scenario {
    /// argv[0..] given to clap.
    pub argv: Vec<String>,
    /// Simulated number of CPUs.
    pub cpus: usize,
    pub plan: Plan,
}

/// What happened to one spawn attempt.
#[derive(Clone, Debug, Default, Serialize)]
pub struct ChildRec {
    pub ordinal: usize,
    pub program: String,
    pub args: Vec<String>,
    pub piped: (bool, bool, bool),
    /// errno if spawn failed.
    pub spawn_err: Option<i32>,
    /// Everything the child took from its stdin.
    #[serde(skip)]
    pub stdin: Vec<u8>,
    pub stdin_len: usize,
    /// The child saw EOF on stdin (read the problem completely).
    pub eof: bool,
    /// Number of `write` calls that reached the pipe.
    pub writes: usize,
    pub write_err: Option<i32>,
    pub short_writes: usize,
    pub eintrs: usize,
    pub writer_blocked: usize,
    pub epipe: bool,
    /// anthem closed the write end.
    pub stdin_closed: bool,
    pub outcome_class: Option<String>,
    pub outcome_proven: bool,
    pub exited: bool,
    pub waited: bool,
    pub wait_err: Option<i32>,
    /// A fault of the plan that actually happened on this child.
    pub fault_fired: Option<String>,
    /// The prover's answer reached anthem and was a proof (`outcome_proven`, waited without error).
    pub delivered_proven: bool,
    /// Sequence number of the event at which the child exited (completion order).
    pub exit_seq: u64,
    pub sim_ms: u64,
    /// The child had to wait because anthem was not reading its output pipe.
    pub output_blocked: bool,
    /// anthem killed the child.
    pub killed: bool,
    /// Simulated clock when the child was started / killed.
    pub spawn_clock_ms: u64,
    pub killed_clock_ms: u64,
}

#[derive(Clone, Debug, Serialize)]
pub struct Event {
    pub seq: u64,
    pub what: String,
}

#[derive(Debug, Default)]
pub struct Sim {
    pub scenario: Option<Scenario>,
    pub seq: u64,
    pub log: Vec<Event>,
    pub keep_log: bool,
    pub digest: u64,
    pub stdout: Vec<u8>,
    pub children: Vec<ChildRec>,
    pub clock_ms: u64,
    pub clock_reads: u64,
    pub clock_jumps: u64,
    pub cpu_reads: u64,
    pub channels: u64,
    pub max_alive: usize,
    pub alive: usize,
    pub argv_reads: u64,
}

thread_local! {
    static SIM: RefCell<Sim> = RefCell::new(Sim::default());
}

pub fn with<R>(f: impl FnOnce(&mut Sim) -> R) -> R {
    SIM.with(|s| f(&mut s.borrow_mut()))
}

/// Install a scenario and clear everything recorded so far.
pub fn begin(scenario: Scenario, keep_log: bool) {
    sim_cpus::set(scenario.cpus);
    with(|s| {
        *s = Sim::default();
        s.keep_log = keep_log;
        s.scenario = Some(scenario);
    });
}

/// Take the recorded state out (leaves an empty simulation behind).
pub fn finish() -> Sim {
    with(std::mem::take)
}

impl Sim {
    /// Hot-path variant: the digest folds the numeric key, the text is only built when the log is kept.
    pub fn event_k(&mut self, key: [u64; 4], what: impl FnOnce() -> String) -> u64 {
        self.seq += 1;
        let mut h = self.digest ^ self.seq;
        for k in key {
            h ^= k;
            h = h.wrapping_mul(0x100000001b3);
            h ^= h >> 29;
        }
        self.digest = h;
        if self.keep_log {
            self.log.push(Event { seq: self.seq, what: what() });
        }
        self.seq
    }

    pub fn event(&mut self, what: impl FnOnce() -> String) -> u64 {
        self.seq += 1;
        let w = what();
        // digest of the whole history: order-sensitive fold over the event texts
        let mut h = self.digest ^ self.seq;
        for b in w.as_bytes() {
            h ^= *b as u64;
            h = h.wrapping_mul(0x100000001b3);
        }
        self.digest = h;
        if self.keep_log {
            self.log.push(Event { seq: self.seq, what: w });
        }
        self.seq
    }

    pub fn plan(&self) -> &Plan {
        &self.scenario.as_ref().expect("no scenario installed: seam used outside a simulation").plan
    }

    /// Stateless draw in 0..100 for a (site, a, b) triple.
    pub fn draw_pct(&self, site: u64, a: u64, b: u64) -> u64 {
        mix3(self.plan().draw_seed ^ site.wrapping_mul(0xa24baed4963ee407), a, b) % 100
    }

    pub fn draw(&self, site: u64, a: u64, b: u64) -> u64 {
        mix3(self.plan().draw_seed ^ site.wrapping_mul(0xa24baed4963ee407), a, b)
    }
}
