//! The scheduler: every choice of "who runs next" comes from one seeded stream and is recorded.
use crate::plan::Rng;
use crate::state::{self, Scenario, Sim};
use serde::{Deserialize, Serialize};
use shuttle::scheduler::{Schedule, Scheduler, Task, TaskId};
use std::cell::RefCell;
use std::panic::{AssertUnwindSafe, catch_unwind};
use std::rc::Rc;

#[derive(Clone, Debug, Serialize, Deserialize, PartialEq, Eq)]
pub enum SchedSpec {
    /// Keep the current task with probability `sticky_pct`, else uniform over the runnable tasks.
    Random { seed: u64, sticky_pct: u8 },
    /// PCT-style: random priorities, `depth` priority-change points within the first `horizon` steps.
    Pct { seed: u64, depth: u32, horizon: u32 },
    /// Calm policy (stay on the current task while it can run, else the lowest runnable id),
    /// except at the listed (step, task) overrides. `Calm` with no overrides is the baseline run.
    Calm { overrides: Vec<(u32, u32)> },
    /// Static priorities: always run the runnable task that comes first in `order` (tasks not listed rank
    /// after the listed ones, by id). The most readable kind of schedule a violation can have.
    Priority { order: Vec<u32> },
    /// Exact replay of a recorded decision list.
    Replay { decisions: Vec<u32> },
}

#[derive(Clone, Debug, Default)]
pub struct Trace {
    pub decisions: Vec<u32>,
    pub randoms: u64,
    pub switches: u64,
    pub max_runnable: usize,
    pub tasks_seen: u32,
    pub replay_diverged: bool,
    /// The (step, task) decisions that differ from what the calm policy would have chosen at that step.
    pub vs_calm: Vec<(u32, u32)>,
}

pub struct SimScheduler {
    spec: SchedSpec,
    rng: Rng,
    started: bool,
    step: u32,
    prio: Vec<u64>,
    change_points: Vec<u32>,
    trace: Rc<RefCell<Trace>>,
}

impl SimScheduler {
    pub fn new(spec: SchedSpec, trace: Rc<RefCell<Trace>>) -> SimScheduler {
        let seed = match &spec {
            SchedSpec::Random { seed, .. } | SchedSpec::Pct { seed, .. } => *seed,
            _ => 0,
        };
        let mut rng = Rng::new(seed);
        let mut change_points = vec![];
        if let SchedSpec::Pct { depth, horizon, .. } = &spec {
            for _ in 0..*depth {
                change_points.push(rng.below((*horizon).max(1) as u64) as u32);
            }
        }
        SimScheduler {
            spec,
            rng,
            started: false,
            step: 0,
            prio: vec![],
            change_points,
            trace,
        }
    }

    fn calm(runnable: &[usize], current: Option<usize>, is_yielding: bool) -> usize {
        match current {
            Some(c) if !is_yielding && runnable.contains(&c) => c,
            Some(c) if is_yielding => *runnable.iter().find(|t| **t != c).unwrap_or(&runnable[0]),
            _ => runnable[0],
        }
    }
}

impl Scheduler for SimScheduler {
    fn new_execution(&mut self) -> Option<Schedule> {
        if self.started {
            None
        } else {
            self.started = true;
            Some(Schedule::new(0))
        }
    }

    fn next_task(&mut self, runnable: &[&Task], current: Option<TaskId>, is_yielding: bool) -> Option<TaskId> {
        let ids: Vec<usize> = runnable.iter().map(|t| usize::from(t.id())).collect();
        let cur: Option<usize> = current.map(usize::from);
        let step = self.step;
        self.step += 1;

        let choice = match &self.spec {
            SchedSpec::Random { sticky_pct, .. } => {
                let stay = self.rng.below(100) < *sticky_pct as u64;
                match cur {
                    Some(c) if stay && !is_yielding && ids.contains(&c) => c,
                    _ => ids[self.rng.below(ids.len() as u64) as usize],
                }
            }
            SchedSpec::Pct { .. } => {
                let max_id = *ids.iter().max().unwrap();
                while self.prio.len() <= max_id {
                    // new tasks get a random priority above every change-point priority
                    let p = 1_000_000 + self.rng.below(1_000_000_000);
                    self.prio.push(p);
                }
                if let (Some(c), Some(k)) = (cur, self.change_points.iter().position(|s| *s == step)) {
                    if c < self.prio.len() {
                        self.prio[c] = k as u64; // lower than any initial priority
                    }
                }
                if let (true, Some(c)) = (is_yielding, cur) {
                    if c < self.prio.len() {
                        self.prio[c] = self.prio[c] / 2;
                    }
                }
                *ids.iter().max_by_key(|t| (self.prio[**t], usize::MAX - **t)).unwrap()
            }
            SchedSpec::Calm { overrides } => match overrides.iter().find(|(s, _)| *s == step) {
                Some((_, t)) if ids.contains(&(*t as usize)) => *t as usize,
                _ => Self::calm(&ids, cur, is_yielding),
            },
            SchedSpec::Priority { order } => {
                let rank = |t: usize| order.iter().position(|o| *o as usize == t).unwrap_or(order.len() + t);
                *ids.iter().min_by_key(|t| rank(**t)).unwrap()
            }
            SchedSpec::Replay { decisions } => match decisions.get(step as usize) {
                Some(t) if ids.contains(&(*t as usize)) => *t as usize,
                _ => {
                    self.trace.borrow_mut().replay_diverged = true;
                    Self::calm(&ids, cur, is_yielding)
                }
            },
        };

        let mut tr = self.trace.borrow_mut();
        if Self::calm(&ids, cur, is_yielding) != choice {
            tr.vs_calm.push((step, choice as u32));
        }
        tr.decisions.push(choice as u32);
        tr.max_runnable = tr.max_runnable.max(ids.len());
        tr.tasks_seen = tr.tasks_seen.max(*ids.iter().max().unwrap() as u32 + 1);
        if cur.is_some() && cur != Some(choice) {
            tr.switches += 1;
        }
        Some(TaskId::from(choice))
    }

    fn next_u64(&mut self) -> u64 {
        self.trace.borrow_mut().randoms += 1;
        self.rng.next()
    }
}

#[derive(Clone, Debug, PartialEq, Eq, Serialize, Deserialize)]
pub enum ExecStatus {
    /// The body returned Ok.
    Returned,
    /// The body returned an error (anthem::main() -> Err).
    MainErr(String),
    /// Some simulated thread panicked.
    Panic(String),
    /// Every unfinished thread is blocked.
    Deadlock(String),
    /// More scheduling steps than the bound.
    StepBound,
}

impl ExecStatus {
    pub fn class(&self) -> &'static str {
        match self {
            ExecStatus::Returned => "returned",
            ExecStatus::MainErr(_) => "main_err",
            ExecStatus::Panic(_) => "panic",
            ExecStatus::Deadlock(_) => "deadlock",
            ExecStatus::StepBound => "step_bound",
        }
    }
}

pub struct ExecResult {
    /// A seam was used from a thread that is not a simulated one during this execution.
    pub foreign_thread: bool,
    pub status: ExecStatus,
    pub sim: Sim,
    pub trace: Trace,
}

thread_local! {
    static LAST_PANIC: RefCell<Option<String>> = const { RefCell::new(None) };
}

/// Set when a seam is reached from a thread the simulator does not own (code under test started a
/// real OS thread): the in-process engine cannot decide anything about such code.
pub static FOREIGN_THREAD: std::sync::atomic::AtomicBool = std::sync::atomic::AtomicBool::new(false);

/// Install (once per process) a panic hook that records the message instead of printing it.
pub fn install_quiet_panic_hook() {
    std::panic::set_hook(Box::new(|info| {
        let msg = if let Some(s) = info.payload().downcast_ref::<&str>() {
            s.to_string()
        } else if let Some(s) = info.payload().downcast_ref::<String>() {
            s.clone()
        } else {
            "<non-string panic>".to_string()
        };
        // Also: all simulated threads share one OS thread, hence one set of std thread-locals. A tree that keeps a
        // RefCell in a thread_local! and holds the borrow across a (simulated) blocking call collides with itself here
        // in a way real threads cannot; that is a limit of this engine, not a finding.
        if msg.contains("outside of a Shuttle test")
            || msg.contains("seam used outside a simulation")
            || msg.contains("called outside a simulation")
            || msg.contains("already borrowed")
            || msg.contains("already mutably borrowed")
        {
            FOREIGN_THREAD.store(true, std::sync::atomic::Ordering::SeqCst);
        }
        let loc = info.location().map(|l| format!(" at {}:{}", l.file(), l.line())).unwrap_or_default();
        LAST_PANIC.with(|p| {
            let mut p = p.borrow_mut();
            // keep the first panic of an execution: later ones are usually consequences
            if p.is_none() {
                *p = Some(format!("{msg}{loc}"));
            }
        });
    }));
}

/// Run `body` once under the simulator: one scenario, one schedule, one exactly repeatable execution.
pub fn run_execution<F>(scenario: Scenario, spec: SchedSpec, max_steps: usize, keep_log: bool, body: F) -> ExecResult
where
    F: Fn() -> Result<(), String> + Send + Sync + 'static,
{
    state::begin(scenario, keep_log);
    LAST_PANIC.with(|p| *p.borrow_mut() = None);
    FOREIGN_THREAD.store(false, std::sync::atomic::Ordering::SeqCst);
    let trace = Rc::new(RefCell::new(Trace::default()));
    let sched = SimScheduler::new(spec, trace.clone());

    let mut cfg = shuttle::Config::new();
    cfg.stack_size = 16 << 20;
    cfg.max_steps = shuttle::MaxSteps::FailAfter(max_steps);
    cfg.failure_persistence = shuttle::FailurePersistence::None;
    cfg.silence_warnings = true;

    let slot: std::sync::Arc<std::sync::Mutex<Option<Result<(), String>>>> = Default::default();
    let slot2 = slot.clone();
    let outcome = catch_unwind(AssertUnwindSafe(|| {
        shuttle::Runner::new(sched, cfg).run(move || {
            let r = body();
            *slot2.lock().unwrap() = Some(r);
        })
    }));

    let status = match outcome {
        Ok(_) => match slot.lock().unwrap().take() {
            Some(Ok(())) => ExecStatus::Returned,
            Some(Err(e)) => ExecStatus::MainErr(e),
            None => ExecStatus::Panic("body did not run to completion".into()),
        },
        Err(payload) => {
            let outer = if let Some(s) = payload.downcast_ref::<&str>() {
                s.to_string()
            } else if let Some(s) = payload.downcast_ref::<String>() {
                s.clone()
            } else {
                String::new()
            };
            let first = LAST_PANIC.with(|p| p.borrow_mut().take()).unwrap_or_default();
            if outer.starts_with("deadlock!") || first.starts_with("deadlock!") {
                ExecStatus::Deadlock(if outer.is_empty() { first } else { outer })
            } else if outer.starts_with("exceeded max_steps") || first.starts_with("exceeded max_steps") {
                ExecStatus::StepBound
            } else {
                ExecStatus::Panic(if first.is_empty() { outer } else { first })
            }
        }
    };

    let sim = state::finish();
    let trace = trace.borrow().clone();
    ExecResult { foreign_thread: FOREIGN_THREAD.load(std::sync::atomic::Ordering::SeqCst), status, sim, trace }
}
