//! The simulated CPU count (one value per OS thread = per running simulation).
use std::cell::Cell;

thread_local! { static CPUS: Cell<usize> = const { Cell::new(1) }; }

pub fn set(n: usize) {
    CPUS.with(|c| c.set(n.max(1)));
}

pub fn get() -> usize {
    CPUS.with(|c| c.get())
}
