//! Stand-in `vampire`: does exactly what the coordinator tells it, when it tells it.
//!
//! Protocol over the Unix socket named by VERIF_COORD_SOCK (line based, payloads length-prefixed):
//!   -> HELLO <pid> <nargs>\n  then one line per argument
//!   <- READ ALL\n | READ ALL <delay_ms>\n | READ <k>\n
//!   -> GOT <n> <eof:0|1>\n  then n bytes (what was read from stdin)
//!   <- FINISH <code|-signal> <out_len> <err_len> [<split> <pause_ms>]\n  then the stdout bytes and the stderr bytes
//!      (stdout is written up to <split>, flushed, and the rest follows after the pause)
//! Without VERIF_COORD_SOCK it behaves like a prover that gives up.
use std::io::{BufRead, BufReader, Read, Write};
use std::os::unix::net::UnixStream;

fn main() {
    let sock = match std::env::var("VERIF_COORD_SOCK") {
        Ok(s) => s,
        Err(_) => {
            let mut sink = Vec::new();
            let _ = std::io::stdin().read_to_end(&mut sink);
            println!("% SZS status GaveUp for stdin");
            return;
        }
    };
    let stream = UnixStream::connect(&sock).unwrap_or_else(|e| {
        eprintln!("stand-in vampire: cannot reach the coordinator at {sock}: {e}");
        std::process::exit(97);
    });
    let mut w = stream.try_clone().expect("clone socket");
    let mut r = BufReader::new(stream);
    let args: Vec<String> = std::env::args().skip(1).collect();
    write!(w, "HELLO {} {}\n", std::process::id(), args.len()).unwrap();
    for a in &args {
        write!(w, "{}\n", a.replace('\n', " ")).unwrap();
    }
    w.flush().unwrap();

    let mut line = String::new();
    r.read_line(&mut line).unwrap();
    let mut input = Vec::new();
    let mut eof = false;
    let words: Vec<&str> = line.split_whitespace().collect();
    match words.as_slice() {
        ["READ", "ALL"] => {
            std::io::stdin().read_to_end(&mut input).ok();
            eof = true;
        }
        ["READ", "ALL", ms] => {
            // a prover that is slow to start reading its input
            std::thread::sleep(std::time::Duration::from_millis(ms.parse().unwrap_or(0)));
            std::io::stdin().read_to_end(&mut input).ok();
            eof = true;
        }
        ["READ", k] => {
            let k: usize = k.parse().unwrap_or(0);
            let mut stdin = std::io::stdin();
            let mut buf = [0u8; 4096];
            while input.len() < k {
                let want = (k - input.len()).min(buf.len());
                match stdin.read(&mut buf[..want]) {
                    Ok(0) => {
                        eof = true;
                        break;
                    }
                    Ok(n) => input.extend_from_slice(&buf[..n]),
                    Err(_) => break,
                }
            }
        }
        _ => std::process::exit(98),
    }
    write!(w, "GOT {} {}\n", input.len(), if eof { 1 } else { 0 }).unwrap();
    w.write_all(&input).unwrap();
    w.flush().unwrap();

    line.clear();
    if r.read_line(&mut line).unwrap_or(0) == 0 {
        std::process::exit(99);
    }
    let words: Vec<&str> = line.split_whitespace().collect();
    if let ["FINISH", code, out_len, err_len, rest @ ..] = words.as_slice() {
        let code: i32 = code.parse().unwrap_or(1);
        let mut out = vec![0u8; out_len.parse().unwrap_or(0)];
        let mut err = vec![0u8; err_len.parse().unwrap_or(0)];
        r.read_exact(&mut out).unwrap();
        r.read_exact(&mut err).unwrap();
        // stop reading stdin for good before answering, like a process about to exit
        let split: usize = rest.first().and_then(|s| s.parse().ok()).unwrap_or(out.len()).min(out.len());
        let pause_ms: u64 = rest.get(1).and_then(|s| s.parse().ok()).unwrap_or(0);
        let _ = std::io::stdout().write_all(&out[..split]);
        let _ = std::io::stdout().flush();
        if split < out.len() {
            std::thread::sleep(std::time::Duration::from_millis(pause_ms));
            let _ = std::io::stdout().write_all(&out[split..]);
        }
        let _ = std::io::stdout().flush();
        let _ = std::io::stderr().write_all(&err);
        let _ = std::io::stderr().flush();
        if code < 0 {
            unsafe {
                libc::signal(-code, libc::SIG_DFL);
                libc::kill(libc::getpid(), -code);
            }
            std::thread::sleep(std::time::Duration::from_secs(5));
            std::process::exit(100);
        }
        std::process::exit(code);
    }
    std::process::exit(98);
}
