fn main() { eprintln!("the E2 driver lives in vcheck (c18, c20, c10x); this crate only provides the stand-in vampire"); }
