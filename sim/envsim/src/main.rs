fn main() {}
