//! C10 driver: scenario loop (worker side), aggregation, minimisation, replay (parent side).
use crate::corpus::{self, Task};
use crate::exec::{self, Prepared, Scratch};
use crate::gen::{self, Case, Tier};
use crate::oracle::{self, Facts, Violation};
use anthem_simrt::plan::{Fault, Rng, mix2, mix3};
use anthem_simrt::sched::SchedSpec;
use serde::{Deserialize, Serialize};
use std::collections::{BTreeMap, BTreeSet};
use std::path::Path;

#[derive(Clone, Debug, Serialize, Deserialize)]
pub struct Replay {
    pub property: String,
    pub seed: u64,
    pub index: u64,
    pub k: u64,
    pub case: Case,
    pub sched: SchedSpec,
    pub max_steps: usize,
    pub violation: Violation,
    pub digest: String,
    pub note: String,
}

#[derive(Clone, Debug, Default, Serialize, Deserialize)]
pub struct ScenarioReport {
    pub i: u64,
    pub skipped: Option<String>,
    pub task: String,
    pub problems: usize,
    pub instances: usize,
    pub mix: String,
    pub execs: u64,
    pub steps: u64,
    pub switches: u64,
    pub sim_ms: u64,
    pub digests: Vec<String>,
    pub orders: Vec<String>,
    pub probes: BTreeMap<String, u64>,
    pub faults_configured: BTreeMap<String, u64>,
    pub faults_fired: BTreeMap<String, u64>,
    pub outcomes: BTreeMap<String, u64>,
    pub violations: Vec<Replay>,
    pub sample: Option<serde_json::Value>,
    pub fault_free: bool,
    /// An execution ended in a panic/deadlock/step bound: the process must not run further executions.
    pub tainted: bool,
}

fn bump(m: &mut BTreeMap<String, u64>, k: &str, n: u64) {
    *m.entry(k.to_string()).or_insert(0) += n;
}

pub fn draw_case(seed: u64, i: u64, tasks: &[Task], tier: &Tier, scratch: &mut Scratch) -> (Case, Option<Prepared>, Option<String>) {
    let mut rng = Rng::new(mix2(seed, i));
    let mut case = gen::draw_shape(&mut rng, tasks, tier);
    let prep = exec::prepare(&case, scratch);
    if prep.reference_status != anthem_simrt::sched::ExecStatus::Returned {
        let why = format!("reference emission did not succeed: {:?}", prep.reference_status);
        return (case, None, Some(why));
    }
    gen::draw_run(&mut rng, &mut case, &prep.reference, tier);
    (case, Some(prep), None)
}

pub fn sched_for(seed: u64, i: u64, k: u64, calm_steps: u64) -> SchedSpec {
    if k == 0 {
        return SchedSpec::Calm { overrides: vec![] };
    }
    let mut r = Rng::new(mix3(seed, i, k));
    let s = r.next();
    if r.pct(50) {
        SchedSpec::Random { seed: s, sticky_pct: *r.pick(&[0u8, 50, 90, 99]) }
    } else {
        SchedSpec::Pct { seed: s, depth: r.below(4) as u32, horizon: calm_steps.max(1) as u32 }
    }
}

pub fn executions_for(case: &Case, problems: usize, tier: &Tier) -> u64 {
    let concurrent = case.instances >= 2 && problems >= 2;
    match (concurrent, tier.thorough) {
        (true, false) => 8,
        (true, true) => 24,
        (false, false) => 3,
        (false, true) => 4,
    }
}

pub fn step_bound(calm_steps: u64) -> usize {
    (calm_steps * 20 + 50_000) as usize
}

pub const FIRST_BOUND: usize = 20_000_000;

/// Run every execution of scenario `i` and report.
pub fn run_scenario(seed: u64, i: u64, tasks: &[Task], tier: &Tier, scratch: &mut Scratch) -> ScenarioReport {
    let mut rep = ScenarioReport { i, ..Default::default() };
    let (case, prep, skip) = draw_case(seed, i, tasks, tier, scratch);
    rep.task = case.task_id.clone();
    if let Some(why) = skip {
        rep.skipped = Some(why);
        return rep;
    }
    let prep = prep.unwrap();
    rep.problems = prep.reference.len();
    rep.instances = case.instances;
    rep.mix = case.mix.clone();
    rep.fault_free = case.plan.faults.is_empty() && !case.plan.spawn_all_enoent;
    for f in case.plan.faults.values() {
        bump(&mut rep.faults_configured, f.kind(), 1);
    }
    if case.plan.spawn_all_enoent {
        bump(&mut rep.faults_configured, "spawn_enoent_all", 1);
    }
    if case.plan.short_write_pct > 0 {
        bump(&mut rep.faults_configured, "benign_short_write", 1);
    }
    if case.plan.eintr_pct > 0 {
        bump(&mut rep.faults_configured, "benign_eintr", 1);
    }
    if case.plan.clock_jump_pct > 0 {
        bump(&mut rep.faults_configured, "benign_clock_jump", 1);
    }
    if case.stale_out {
        bump(&mut rep.faults_configured, "benign_stale_files_in_save_dir", 1);
        bump(&mut rep.faults_fired, "benign_stale_files_in_save_dir", 1);
    }

    let execs = executions_for(&case, rep.problems, tier);
    let mut calm_steps = 0u64;
    let mut digests = BTreeSet::new();
    let mut orders = BTreeSet::new();
    for k in 0..execs {
        let spec = sched_for(seed, i, k, calm_steps);
        let bound = if k == 0 { FIRST_BOUND } else { step_bound(calm_steps) };
        let run = exec::run_case(&case, &prep, spec.clone(), bound, false, scratch);
        let (violations, facts) = oracle::check(&case, &prep, &run);
        let steps = run.result.trace.decisions.len() as u64;
        if k == 0 {
            calm_steps = steps;
        }
        rep.execs += 1;
        rep.steps += steps;
        rep.switches += run.result.trace.switches;
        let digest = format!("{:016x}", run.result.sim.digest);
        digests.insert(digest.clone());
        orders.insert(format!("{:?}", facts.completion));
        account(&mut rep, &case, &run, &facts);
        if let Some(v) = violations.first() {
            if rep.violations.len() < 2 {
                rep.violations.push(Replay {
                    property: "C10".into(),
                    seed,
                    index: i,
                    k,
                    case: case.clone(),
                    sched: SchedSpec::Replay { decisions: run.result.trace.decisions.clone() },
                    max_steps: bound,
                    violation: v.clone(),
                    digest,
                    note: format!("all violations of this execution: {}", violations.iter().map(|v| v.class.as_str()).collect::<Vec<_>>().join(",")),
                });
            }
        }
        if !matches!(run.result.status, anthem_simrt::sched::ExecStatus::Returned | anthem_simrt::sched::ExecStatus::MainErr(_)) {
            // a panic or an aborted execution may leave coroutine state behind: stop here, the worker re-executes itself
            rep.tainted = true;
            break;
        }
        if k == execs - 1 && rep.sample.is_none() {
            rep.sample = Some(sample_json(&case, &prep, &run, &facts, seed, i, k, &spec));
        }
    }
    rep.digests = digests.into_iter().collect();
    rep.orders = orders.into_iter().collect();
    rep
}

fn account(rep: &mut ScenarioReport, case: &Case, run: &exec::Run, facts: &Facts) {
    let sim = &run.result.sim;
    rep.sim_ms += sim.clock_ms;
    if sim.clock_jumps > 0 {
        bump(&mut rep.faults_fired, "benign_clock_jump", sim.clock_jumps);
    }
    let p = &mut rep.probes;
    bump(p, if facts.pool_path { "path_pool" } else { "path_sequential" }, 1);
    if facts.problems == 0 {
        bump(p, "zero_problem_task", 1);
    }
    match facts.verdict {
        Some(true) => bump(p, "verdict_success", 1),
        Some(false) => bump(p, "verdict_failure", 1),
        None => bump(p, "verdict_none", 1),
    }
    if !facts.decider.is_empty() {
        bump(p, &format!("single_bad_result_{}", facts.decider), 1);
    }
    let sorted = facts.completion.windows(2).all(|w| w[0] <= w[1]);
    if !sorted {
        bump(p, "completion_out_of_emission_order", 1);
    }
    bump(p, &format!("max_alive_{}", sim.max_alive.min(9)), 1);
    if sim.max_alive > case.instances && case.instances > 0 {
        bump(p, if sim.children.iter().all(|c| c.fault_fired.is_none()) { "more_alive_than_instances_fault_free" } else { "more_alive_than_instances_after_fault" }, 1);
    }
    if sim.children.iter().any(|c| c.output_blocked) {
        bump(p, "prover_blocked_on_full_output_pipe", 1);
    }
    if sim.cpu_reads > 0 {
        bump(p, "num_cpus_consulted", 1);
    }
    for c in &sim.children {
        if c.writer_blocked > 0 {
            bump(p, "writer_blocked_on_full_pipe", 1);
        }
        if c.epipe {
            bump(p, "epipe_seen", 1);
        }
        if c.short_writes > 0 {
            bump(&mut rep.faults_fired, "benign_short_write", c.short_writes as u64);
        }
        if c.eintrs > 0 {
            bump(&mut rep.faults_fired, "benign_eintr", c.eintrs as u64);
        }
        if let Some(f) = &c.fault_fired {
            let kind = f.split(':').next().unwrap_or("fault");
            bump(&mut rep.faults_fired, kind, 1);
        }
        if c.spawn_err.is_none() && !c.waited && c.exited {
            bump(p, "child_not_reaped", 1);
        }
        if let Some(cl) = &c.outcome_class {
            let short = cl.split(':').take(if cl.starts_with("szs") { 2 } else { 1 }).collect::<Vec<_>>().join(":");
            bump(&mut rep.outcomes, &short, 1);
        }
    }
}

fn sample_json(case: &Case, prep: &Prepared, run: &exec::Run, facts: &Facts, seed: u64, i: u64, k: u64, spec: &SchedSpec) -> serde_json::Value {
    let text = String::from_utf8_lossy(&run.result.sim.stdout);
    let tail: Vec<&str> = text.lines().filter(|l| l.starts_with("> ") || l.starts_with("Status:") || l.starts_with("Error:")).collect();
    let argv_tail: Vec<String> = [case.options.clone(), case.flags.clone(), case.run_flags.clone()].concat();
    serde_json::json!({
        "seed": seed, "scenario": i, "execution": k,
        "task": case.task_id,
        "argv_tail": argv_tail,
        "simulated_cpus": case.cpus,
        "prover_instances": case.instances,
        "mix": case.mix,
        "problems": prep.reference.iter().map(|(n, b)| format!("{n} ({} bytes)", b.len())).collect::<Vec<_>>(),
        "plan_outcomes": case.plan.outcomes.values().map(|o| o.class.clone()).collect::<Vec<_>>(),
        "plan_faults": case.plan.faults.iter().map(|(k, f)| format!("spawn#{k}:{}", f.kind())).collect::<Vec<_>>(),
        "pipe_capacity": case.plan.pipe_capacity,
        "scheduler": match spec { SchedSpec::Random { sticky_pct, .. } => format!("random sticky={sticky_pct}%"), SchedSpec::Pct { depth, .. } => format!("pct depth={depth}"), SchedSpec::Calm { .. } => "calm".into(), SchedSpec::Replay { .. } => "replay".into(), SchedSpec::Priority { .. } => "static priorities".into() },
        "schedule_steps": run.result.trace.decisions.len(),
        "context_switches": run.result.trace.switches,
        "completion_order_as_problem_index": facts.completion,
        "anthem_stdout_marker_lines": tail,
        "event_log_digest": format!("{:016x}", run.result.sim.digest),
    })
}

pub fn tasks() -> Vec<Task> {
    let repo = std::env::var("VERIF_REPO").unwrap_or_else(|_| "/repo".into());
    let verif = std::env::var("VERIF_HOME").unwrap_or_else(|_| "/verif".into());
    corpus::load(Path::new(&repo), Path::new(&verif)).into_iter().filter(|t| !t.refused).collect()
}

/// Re-execute a replay file; returns (violations, digest).
pub fn replay(r: &Replay, scratch: &mut Scratch, keep_log: bool) -> (Vec<Violation>, String, exec::Run) {
    let (v, d, run, _) = replay_with_facts(r, scratch, keep_log);
    (v, d, run)
}

pub fn replay_with_facts(r: &Replay, scratch: &mut Scratch, keep_log: bool) -> (Vec<Violation>, String, exec::Run, Facts) {
    let prep = exec::prepare(&r.case, scratch);
    let run = exec::run_case(&r.case, &prep, r.sched.clone(), r.max_steps, keep_log, scratch);
    let (violations, facts) = oracle::check(&r.case, &prep, &run);
    let digest = format!("{:016x}", run.result.sim.digest);
    (violations, digest, run, facts)
}

#[derive(Serialize, Deserialize)]
pub struct TryOut {
    /// Number of simulated threads the execution had.
    #[serde(default)]
    pub tasks: u32,
    pub violations: Vec<Violation>,
    pub digest: String,
    pub decisions: Vec<u32>,
    #[serde(default)]
    pub vs_calm: Vec<(u32, u32)>,
    /// anthem's captured stdout (lossy) and the verdict the oracle read from it.
    #[serde(default)]
    pub stdout: String,
    #[serde(default)]
    pub verdict: Option<bool>,
}

/// One re-execution in a process of its own (an execution that panics must not share a process with the next one).
pub fn replay_in_fresh_process(r: &Replay, scratch: &mut Scratch) -> (Vec<Violation>, String, Vec<u32>) {
    let t = try_in_fresh_process(r, scratch);
    (t.violations, t.digest, t.decisions)
}

/// Re-execute in a process of its own, with a wall-clock guard (a tree that spins in real time must not stall the minimiser).
pub fn try_in_fresh_process(r: &Replay, scratch: &mut Scratch) -> TryOut {
    let dir = scratch.fresh_dir("try");
    let f = dir.join("candidate.json");
    std::fs::write(&f, serde_json::to_string(r).unwrap()).unwrap();
    let mut child = std::process::Command::new(std::env::current_exe().unwrap())
        .args(["c10-try", f.to_str().unwrap()])
        .stdin(std::process::Stdio::null())
        .stdout(std::process::Stdio::piped())
        .stderr(std::process::Stdio::null())
        .spawn()
        .unwrap_or_else(|e| crate::harness_error(&format!("cannot start c10-try: {e}")));
    let mut stdout = child.stdout.take().unwrap();
    let reader = std::thread::spawn(move || {
        let mut v = vec![];
        let _ = std::io::Read::read_to_end(&mut stdout, &mut v);
        v
    });
    let t0 = std::time::Instant::now();
    let status = loop {
        match child.try_wait() {
            Ok(Some(s)) => break Some(s),
            Ok(None) if t0.elapsed().as_secs() > 90 => {
                let _ = child.kill();
                let _ = child.wait();
                break None;
            }
            Ok(None) => std::thread::sleep(std::time::Duration::from_millis(2)),
            Err(_) => break None,
        }
    };
    let out = reader.join().unwrap_or_default();
    let _ = std::fs::remove_dir_all(&dir);
    match serde_json::from_slice::<TryOut>(&out) {
        Ok(t) => t,
        Err(_) => TryOut { violations: vec![Violation { class: "abort".into(), detail: format!("re-execution ended with {status:?}") }], digest: String::new(), decisions: vec![], vs_calm: vec![], stdout: String::new(), verdict: None, tasks: 0 },
    }
}

fn same_class(vs: &[Violation], class: &str) -> Option<Violation> {
    vs.iter().find(|v| v.class == class).cloned()
}

/// Shrink a failing execution while the same violation class persists.
pub fn minimise(mut r: Replay, scratch: &mut Scratch, budget_s: u64) -> Replay {
    let class = r.violation.class.clone();
    let started = std::time::Instant::now();
    let out_of_time = || started.elapsed().as_secs() >= budget_s;
    let tries = std::cell::Cell::new(0u32);
    let attempt = |cand: &Replay, scratch: &mut Scratch| -> Option<(Violation, String, Vec<u32>)> {
        tries.set(tries.get() + 1);
        let (vs, digest, decisions) = replay_in_fresh_process(cand, scratch);
        same_class(&vs, &class).map(|v| (v, digest, decisions))
    };
    macro_rules! try_keep {
        ($cand:expr) => {{
            let cand: Replay = $cand;
            match attempt(&cand, scratch) {
                Some((v, d, _)) => {
                    r = cand;
                    r.violation = v;
                    r.digest = d;
                    true
                }
                None => false,
            }
        }};
    }

    // 1. schedule: the calm schedule, or calm plus as few forced switches as possible
    {
        let mut c = r.clone();
        c.sched = SchedSpec::Calm { overrides: vec![] };
        c.max_steps = FIRST_BOUND;
        if !try_keep!(c) {
            // a static priority order over the simulated threads is the simplest schedule a concurrency bug can need
            let base = try_in_fresh_process(&r, scratch);
            let n_tasks = base.tasks.max(1);
            let mut found_priority = false;
            if n_tasks <= 40 {
                let mut prng = Rng::new(mix2(r.seed, r.index ^ 0x9510));
                for attempt in 0..60u32 {
                    if out_of_time() {
                        break;
                    }
                    let mut order: Vec<u32> = (0..n_tasks).collect();
                    match attempt {
                        0 => order.reverse(),
                        1 => order.rotate_left(1),
                        _ => {
                            for k in (1..order.len()).rev() {
                                let j = prng.below(k as u64 + 1) as usize;
                                order.swap(k, j);
                            }
                        }
                    }
                    let mut c = r.clone();
                    c.sched = SchedSpec::Priority { order: order.clone() };
                    c.max_steps = FIRST_BOUND;
                    if try_keep!(c) {
                        found_priority = true;
                        // shorten the list while it still fails
                        let mut cur = order;
                        let mut i = cur.len();
                        while i > 0 && !out_of_time() {
                            i -= 1;
                            let mut cand = cur.clone();
                            cand.remove(i);
                            let mut c = r.clone();
                            c.sched = SchedSpec::Priority { order: cand.clone() };
                            if try_keep!(c) {
                                cur = cand;
                            }
                        }
                        break;
                    }
                }
            }
            // otherwise express the failing schedule as the decisions that deviate from the calm policy
            if found_priority {
            } else if let SchedSpec::Replay { .. } = &r.sched {
                let overrides: Vec<(u32, u32)> = try_in_fresh_process(&r, scratch).vs_calm;
                let mut c = r.clone();
                c.sched = SchedSpec::Calm { overrides: overrides.clone() };
                if try_keep!(c) {
                    let mut cur = overrides;
                    let mut chunk = (cur.len() / 2).max(1);
                    while chunk >= 1 && tries.get() < 400 && !out_of_time() {
                        let mut start = 0;
                        let mut progressed = false;
                        while start < cur.len() && tries.get() < 400 && !out_of_time() {
                            let mut cand: Vec<(u32, u32)> = cur[..start].to_vec();
                            cand.extend_from_slice(&cur[(start + chunk).min(cur.len())..]);
                            let mut c = r.clone();
                            c.sched = SchedSpec::Calm { overrides: cand.clone() };
                            if try_keep!(c) {
                                cur = cand;
                                progressed = true;
                            } else {
                                start += chunk;
                            }
                        }
                        if chunk == 1 && !progressed {
                            break;
                        }
                        chunk = if chunk == 1 { if progressed { 1 } else { 0 } } else { chunk / 2 };
                        if chunk == 0 {
                            break;
                        }
                    }
                }
            }
        }
    }

    // 2. plan: benign perturbations off
    let quiet = anthem_simrt::plan::Plan::quiet();
    for step in 0..7 {
        if out_of_time() {
            break;
        }
        let mut c = r.clone();
        match step {
            0 => c.case.plan.short_write_pct = 0,
            1 => c.case.plan.eintr_pct = 0,
            2 => c.case.plan.pipe_capacity = quiet.pipe_capacity,
            3 => {
                c.case.plan.read_chunk = quiet.read_chunk;
                c.case.plan.out_piece = 0;
            }
            4 => c.case.plan.write_yield_every = 0,
            5 => {
                c.case.plan.clock_jump_pct = 0;
                c.case.plan.clock_step_ms = 1;
            }
            _ => {
                c.case.stale_out = false;
                if r.violation.class != "I4-saved-bytes" && r.violation.class != "I4-saved-set" {
                    c.case.save_problems = false;
                }
            }
        }
        let _ = try_keep!(c);
    }
    // 3. plan: faults removed, non-proven outcomes turned into plain theorems, one at a time
    let fault_keys: Vec<usize> = r.case.plan.faults.keys().cloned().collect();
    for k in fault_keys {
        let mut c = r.clone();
        c.case.plan.faults.remove(&k);
        let _ = try_keep!(c);
    }
    if r.case.plan.spawn_all_enoent {
        let mut c = r.clone();
        c.case.plan.spawn_all_enoent = false;
        let _ = try_keep!(c);
    }
    let keys: Vec<String> = r.case.plan.outcomes.keys().cloned().collect();
    for key in keys {
        if out_of_time() {
            break;
        }
        let mut c = r.clone();
        let o = c.case.plan.outcomes.get_mut(&key).unwrap();
        if o.class != "Theorem" || o.compute_steps != 0 || o.stdout.len() > 40 {
            let mut rng = Rng::new(1);
            let was_proven = o.proven;
            *o = gen::theorem(&mut rng, "stdin", false);
            if !was_proven {
                // first try to keep it non-proven but plain
                let mut c2 = r.clone();
                let o2 = c2.case.plan.outcomes.get_mut(&key).unwrap();
                o2.stdout = b"% SZS status GaveUp for stdin\n".to_vec();
                o2.stderr.clear();
                o2.exit = anthem_simrt::plan::Exit::Code(0);
                o2.compute_steps = 0;
                o2.class = "szs:GaveUp".into();
                if try_keep!(c) {
                    continue;
                }
                let _ = try_keep!(c2);
            } else {
                let _ = try_keep!(c);
            }
        }
    }
    // 4. flags: fewer instances, drop drawn flags
    for n in [2usize, 3] {
        if r.case.instances > n {
            let mut c = r.clone();
            c.case.instances = n;
            c.case.run_flags = vec!["-n".into(), n.to_string(), "--no-timing".into()];
            let _ = try_keep!(c);
        }
    }
    {
        let mut c = r.clone();
        c.case.run_flags.retain(|f| f != "--no-timing");
        c.case.run_flags.push("--no-timing".into());
        let _ = try_keep!(c);
    }
    // 5. pin the final schedule as an explicit decision list
    let (vs, digest, decisions) = replay_in_fresh_process(&r, scratch);
    if let Some(v) = same_class(&vs, &class) {
        r.sched_note();
        r.violation = v;
        r.digest = digest;
        // a calm schedule (with its few deviations) is the more readable replay; pin the full decision list otherwise
        if !matches!(r.sched, SchedSpec::Calm { .. } | SchedSpec::Priority { .. }) {
            let mut pinned = r.clone();
            pinned.sched = SchedSpec::Replay { decisions };
            let (vs2, d2, _) = replay_in_fresh_process(&pinned, scratch);
            if same_class(&vs2, &class).is_some() && d2 == r.digest {
                r = pinned;
            }
        }
    }
    r.note = format!("{}; minimised with {} re-executions", r.note, tries.get());
    r
}

impl Replay {
    fn sched_note(&mut self) {
        let s = match &self.sched {
            SchedSpec::Calm { overrides } if overrides.is_empty() => "schedule-independent: fails under the calm schedule".to_string(),
            SchedSpec::Priority { order } => format!("fails under static thread priorities {order:?} (always run the first runnable thread of this list; 0 = main, then pool workers and provers in creation order)"),
            SchedSpec::Calm { overrides } => format!("needs {} scheduling decision(s) that deviate from the calm schedule (step, task): {:?}{}", overrides.len(), &overrides[..overrides.len().min(12)], if overrides.len() > 12 { " ..." } else { "" }),
            _ => "original random schedule kept".to_string(),
        };
        if !self.note.contains(&s) {
            self.note = format!("{}; {}", self.note, s);
        }
    }
}

pub fn fault_kinds() -> Vec<&'static str> {
    let _ = Fault::SpawnErr { errno: 0 };
    vec!["spawn_err", "spawn_enoent_all", "write_err", "wait_err", "early_exit", "benign_short_write", "benign_eintr", "benign_clock_jump", "benign_stale_files_in_save_dir"]
}
