//! The fixed workload: the verify tasks shipped with the repository plus the small tasks in /verif/corpus.
use std::fs;
use std::path::{Path, PathBuf};

#[derive(Clone, Debug)]
pub struct Task {
    /// e.g. "repo:strong_equivalence/transitive#0" or "corpus:s33#1"
    pub id: String,
    pub dir: PathBuf,
    /// File arguments (relative to `dir`), in the order given.
    pub files: Vec<String>,
    /// Remaining `verify` options of the task (equivalence, direction, bypass-tightness ...).
    pub options: Vec<String>,
    pub has_direction: bool,
    /// Total size of the input files (used to keep the big tasks rare).
    pub weight: usize,
    /// Problems larger than a pipe buffer; only used by the C10 engines (marker `^` in tasks.txt).
    pub large: bool,
    /// A task anthem refuses with an error (kept for C18's error-output determinism; useless for C10/C20).
    pub refused: bool,
    /// Many large problems: drawn rarely by C10 (it costs scheduler steps, not coverage).
    pub heavy: bool,
}

fn parse_line(id: String, dir: &Path, words: &[&str]) -> Option<Task> {
    let mut files = vec![];
    let mut options = vec![];
    let mut i = 0;
    while i < words.len() {
        let w = words[i];
        match w {
            "tptp_compliance" | "verify" | "--no-proof-search" => {}
            "--save-problems" => i += 1, // skip $OUT
            _ if w.starts_with("--") => {
                options.push(w.to_string());
                // options with a separate value
                if !w.contains('=') && matches!(w, "--equivalence" | "--direction" | "--decomposition" | "--formula-representation") {
                    i += 1;
                    options.push(words.get(i)?.to_string());
                }
            }
            _ => files.push(w.to_string()),
        }
        i += 1;
    }
    if files.is_empty() {
        return None;
    }
    let weight = files.iter().map(|f| fs::metadata(dir.join(f)).map(|m| m.len() as usize).unwrap_or(0)).sum();
    let has_direction = options.iter().any(|o| o.starts_with("--direction"));
    Some(Task { id, dir: dir.to_path_buf(), files, options, has_direction, weight, refused: false, heavy: false, large: false })
}

fn walk(dir: &Path, out: &mut Vec<PathBuf>) {
    let mut entries: Vec<PathBuf> = match fs::read_dir(dir) {
        Ok(rd) => rd.filter_map(|e| e.ok().map(|e| e.path())).collect(),
        Err(_) => return,
    };
    entries.sort();
    for p in entries {
        if p.is_dir() {
            walk(&p, out);
        } else if p.file_name().map(|n| n == ".tests").unwrap_or(false) {
            out.push(p);
        }
    }
}

pub fn load(repo: &Path, verif: &Path) -> Vec<Task> {
    let mut tasks = vec![];
    let examples = repo.join("res/examples");
    let mut tests = vec![];
    walk(&examples, &mut tests);
    for t in tests {
        let dir = t.parent().unwrap();
        let rel = dir.strip_prefix(&examples).unwrap().to_string_lossy().into_owned();
        let text = fs::read_to_string(&t).unwrap_or_default();
        for (n, line) in text.lines().enumerate() {
            let words: Vec<&str> = line.split_whitespace().collect();
            if words.first() != Some(&"tptp_compliance") {
                continue;
            }
            if let Some(task) = parse_line(format!("repo:{rel}#{n}"), dir, &words) {
                tasks.push(task);
            }
        }
    }
    let corpus = verif.join("corpus");
    let text = fs::read_to_string(corpus.join("tasks.txt")).unwrap_or_default();
    for (n, line) in text.lines().enumerate() {
        let words: Vec<&str> = line.split_whitespace().collect();
        if words.is_empty() || words[0].starts_with('#') {
            continue;
        }
        let refused = words[0].starts_with('!');
        let heavy = words[0].starts_with('~');
        let large = words[0].starts_with('^');
        let name = words[0].trim_start_matches(['!', '~', '^']);
        let dir = corpus.join(name);
        if let Some(mut task) = parse_line(format!("corpus:{name}#{n}"), &dir, &words[1..]) {
            task.refused = refused;
            task.heavy = heavy;
            task.large = large;
            tasks.push(task);
        }
    }
    tasks
}
