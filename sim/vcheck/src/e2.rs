//! E2: run the shipped (hooks-off) anthem binary as a real process in a seeded environment.
use anthem_simrt::plan::Rng;
use serde::{Deserialize, Serialize};
use std::io::Write;
use std::os::unix::process::CommandExt;
use std::path::{Path, PathBuf};
use std::process::{Command, Stdio};

/// Every nondeterministic input of one anthem process that the interposer / launcher controls.
#[derive(Clone, Debug, Serialize, Deserialize, PartialEq, Eq)]
pub struct Env {
    /// None = no interposer at all (the process runs natively).
    pub preload: bool,
    pub hash_seed: Option<u64>,
    pub dir_mode: String,
    pub dir_seed: u64,
    pub cpus: Option<u32>,
    pub clock_offset_ms: Option<u64>,
    pub clock_jump_ms: Option<u64>,
    pub clock_jump_every: u64,
    pub heap_pad: u64,
    pub aslr_off: bool,
    /// Length of a padding environment variable (moves the initial stack).
    pub stack_pad: usize,
    pub locale: Option<String>,
    pub tz: Option<String>,
    pub term: Option<String>,
    pub no_color: bool,
    pub columns: Option<u32>,
    /// Extra environment variables (HOME, USER, RUST_BACKTRACE, ...).
    #[serde(default)]
    pub extra_vars: Vec<(String, String)>,
    /// Run from another working directory (inputs are always named by absolute path).
    #[serde(default)]
    pub other_cwd: bool,
    /// The output directory already holds (longer) files of the same names from an earlier, different run.
    #[serde(default)]
    pub dirty_out: bool,
    /// Before the observed run, the same command is started on the same output directory and killed after this many
    /// microseconds (a crash at an arbitrary point; only its files survive).
    #[serde(default)]
    pub crash_first_us: Option<u64>,
    /// A command that names its input file still inherits a stdin: here a pipe carrying a copy of that input (true)
    /// instead of /dev/null. It must not matter.
    #[serde(default)]
    pub stdin_noise: bool,
    /// Pause once, half-way through delivering stdin, for this many milliseconds (a slow producer upstream).
    #[serde(default)]
    pub stdin_pause_ms: Option<u64>,
    /// Deliver stdin in chunks of this size (only for commands that read stdin).
    pub stdin_chunk: usize,
    /// read() on an input file transfers at most this many bytes per call (short reads; must not matter).
    #[serde(default)]
    pub read_max: Option<u64>,
    /// Every k-th read() on an input file fails once with EINTR (std retries; must not matter).
    #[serde(default)]
    pub read_eintr_every: Option<u64>,
    /// The k-th operation on an input object (open, opendir, stat, read, readdir) fails with this errno: anthem may
    /// fail, it may never come out with different output.
    #[serde(default)]
    pub io_fail: Option<(u64, u32)>,
    /// The k-th write() to a regular output file fails with this errno (full disk, quota, I/O error): anthem may fail,
    /// it may never succeed with other output.
    #[serde(default)]
    pub out_fail: Option<(u64, u32)>,
    /// Every n-th write() to a regular output file is cut short (must not matter).
    #[serde(default)]
    pub out_short_every: Option<u64>,
    /// Directories whose contents are "input objects" for the three fields above (set by the caller for each run).
    #[serde(skip)]
    pub io_prefixes: Vec<String>,
}

impl Env {
    pub fn plain() -> Env {
        Env {
            preload: false,
            hash_seed: None,
            dir_mode: "natural".into(),
            dir_seed: 0,
            cpus: None,
            clock_offset_ms: None,
            clock_jump_ms: None,
            clock_jump_every: 1,
            heap_pad: 0,
            aslr_off: false,
            stack_pad: 0,
            locale: None,
            tz: None,
            term: None,
            no_color: false,
            columns: None,
            extra_vars: vec![],
            other_cwd: false,
            dirty_out: false,
            crash_first_us: None,
            stdin_noise: false,
            stdin_pause_ms: None,
            stdin_chunk: 1 << 20,
            read_max: None,
            read_eintr_every: None,
            io_fail: None,
            out_fail: None,
            out_short_every: None,
            io_prefixes: vec![],
        }
    }

    pub fn draw(rng: &mut Rng) -> Env {
        Env {
            preload: true,
            hash_seed: Some(rng.next()),
            dir_mode: rng.pick(&["sorted", "reverse", "shuffle", "shuffle", "natural"]).to_string(),
            dir_seed: rng.next(),
            cpus: if rng.pct(70) { Some(*rng.pick(&[1u32, 2, 3, 8, 64])) } else { None },
            clock_offset_ms: if rng.pct(50) { Some(rng.below(10_000_000_000)) } else { None },
            clock_jump_ms: if rng.pct(30) { Some(1 + rng.below(100_000)) } else { None },
            clock_jump_every: 1 + rng.below(5),
            heap_pad: *rng.pick(&[0u64, 16, 4096, 1 << 20, 40_000_001]),
            aslr_off: rng.pct(60),
            stack_pad: *rng.pick(&[0usize, 1, 17, 4096, 100_003]),
            locale: rng.pick(&[None, Some("C"), Some("C.UTF-8"), Some("de_DE.UTF-8"), Some("tr_TR.UTF-8"), Some("POSIX")]).map(str::to_string),
            tz: rng.pick(&[None, Some("UTC"), Some("Asia/Kolkata"), Some("America/St_Johns")]).map(str::to_string),
            term: rng.pick(&[None, Some("dumb"), Some("xterm-256color")]).map(str::to_string),
            no_color: rng.pct(30),
            columns: *rng.pick(&[None, Some(20u32), Some(80), Some(400)]),
            extra_vars: {
                let pool: &[(&str, &[&str])] = &[
                    ("HOME", &["/root", "/tmp", "/home/üser"]),
                    ("USER", &["root", "nobody"]),
                    ("LOGNAME", &["alice"]),
                    ("RUST_LOG", &["trace", "off"]),
                    ("CLICOLOR_FORCE", &["1"]),
                    ("RAYON_NUM_THREADS", &["1", "7"]),
                    ("TMPDIR", &["/tmp", "/dev/shm", "/nonexistent-tmp"]),
                    ("SOURCE_DATE_EPOCH", &["0", "1700000000"]),
                    ("HOSTNAME", &["a", "b.example.org"]),
                ];
                let mut v = vec![];
                for (k, vals) in pool {
                    if rng.pct(30) {
                        v.push((k.to_string(), rng.pick(vals).to_string()));
                    }
                }
                v
            },
            other_cwd: rng.pct(30),
            dirty_out: rng.pct(35),
            stdin_noise: rng.pct(30),
            stdin_pause_ms: if rng.pct(12) { Some(350 + rng.below(400)) } else { None },
            crash_first_us: if rng.pct(25) { Some(*rng.pick(&[0u64, 300, 1000, 2500, 6000, 15000])) } else { None },
            stdin_chunk: *rng.pick(&[1usize, 3, 64, 4096, 1 << 20]),
            read_max: if rng.pct(35) { Some(*rng.pick(&[1u64, 2, 7, 64, 1000])) } else { None },
            read_eintr_every: if rng.pct(25) { Some(*rng.pick(&[2u64, 3, 10])) } else { None },
            io_fail: None,
            out_fail: None,
            out_short_every: if rng.pct(20) { Some(*rng.pick(&[1u64, 2, 7])) } else { None },
            io_prefixes: vec![],
        }
    }

    /// The named dimension reset to its plain value (for minimising a difference).
    pub fn without(&self, dim: &str) -> Env {
        let p = Env::plain();
        let mut e = self.clone();
        match dim {
            "hash_seed" => e.hash_seed = None,
            "dir_order" => {
                e.dir_mode = p.dir_mode;
                e.dir_seed = 0;
            }
            "cpus" => e.cpus = None,
            "clock" => {
                e.clock_offset_ms = None;
                e.clock_jump_ms = None;
            }
            "heap_pad" => e.heap_pad = 0,
            "aslr" => e.aslr_off = false,
            "stack_pad" => e.stack_pad = 0,
            "extra_vars" => e.extra_vars.clear(),
            "cwd" => e.other_cwd = false,
            "dirty_out" => e.dirty_out = false,
            "crash_first" => e.crash_first_us = None,
            "stdin_noise" => e.stdin_noise = false,
            "stdin_pause" => e.stdin_pause_ms = None,
            "locale" => {
                e.locale = None;
                e.tz = None;
                e.term = None;
                e.no_color = false;
                e.columns = None;
            }
            "stdin_chunk" => e.stdin_chunk = p.stdin_chunk,
            "short_reads" => {
                e.read_max = None;
                e.read_eintr_every = None;
            }
            "io_fail" => e.io_fail = None,
            "out_fail" => e.out_fail = None,
            "short_output_writes" => e.out_short_every = None,
            _ => {}
        }
        if e.hash_seed.is_none() && e.dir_mode == "natural" && e.cpus.is_none() && e.clock_offset_ms.is_none() && e.clock_jump_ms.is_none() && e.heap_pad == 0 && e.read_max.is_none() && e.read_eintr_every.is_none() && e.io_fail.is_none() && e.out_fail.is_none() && e.out_short_every.is_none() {
            e.preload = false;
        }
        e
    }

    pub const DIMS: &'static [&'static str] = &["hash_seed", "dir_order", "cpus", "clock", "heap_pad", "aslr", "stack_pad", "locale", "extra_vars", "cwd", "dirty_out", "crash_first", "stdin_noise", "stdin_pause", "stdin_chunk", "short_reads", "io_fail", "out_fail", "short_output_writes"];
}

#[derive(Clone, Debug, PartialEq, Eq)]
pub struct ProcOut {
    pub code: Option<i32>,
    pub signal: Option<i32>,
    pub stdout: Vec<u8>,
    pub stderr: Vec<u8>,
    pub timed_out: bool,
}

pub struct Binaries {
    pub anthem: PathBuf,
    pub preload: PathBuf,
    pub standin_dir: PathBuf,
}

impl Binaries {
    pub fn locate() -> Binaries {
        let home = crate::verif_home();
        let anthem = std::env::var("VERIF_ANTHEM_BIN").map(PathBuf::from).unwrap_or_else(|_| home.join("target/repo/release/anthem"));
        let b = Binaries { anthem, preload: home.join("target/libverifenv.so"), standin_dir: home.join("target/standin") };
        for p in [&b.anthem, &b.preload] {
            if !p.exists() {
                eprintln!("HARNESS-ERROR: {} is missing (run bin/build e2)", p.display());
                std::process::exit(2);
            }
        }
        b
    }
}

/// Where the interposer appends one line of call counts per process (set once by a check that wants the numbers).
pub static INTERPOSER_LOG: std::sync::OnceLock<PathBuf> = std::sync::OnceLock::new();

/// Sum of the interposer's per-process call counts: how often each seam actually answered.
pub fn interposer_totals() -> std::collections::BTreeMap<String, u64> {
    let mut m = std::collections::BTreeMap::new();
    if let Some(p) = INTERPOSER_LOG.get() {
        if let Ok(text) = std::fs::read_to_string(p) {
            for line in text.lines() {
                *m.entry("processes_with_interposer".to_string()).or_insert(0) += 1;
                for kv in line.split_whitespace().skip(1) {
                    if let Some((k, v)) = kv.split_once('=') {
                        *m.entry(format!("{k}_calls_answered")).or_insert(0) += v.parse::<u64>().unwrap_or(0);
                    }
                }
            }
        }
    }
    m
}

/// Run anthem once. `extra_env` is applied last (PATH for the stand-in prover, coordinator socket).
/// Start the same command and kill it (SIGKILL) after `after_us` microseconds: a crash at an arbitrary point.
/// Only what it left on disk survives.
pub fn crash_anthem(bins: &Binaries, args: &[String], cwd: &Path, env: &Env, after_us: u64) -> std::io::Result<bool> {
    let mut cmd = build_command(bins, args, cwd, env, &[]);
    cmd.stdin(Stdio::null()).stdout(Stdio::null()).stderr(Stdio::null());
    let mut child = cmd.spawn()?;
    std::thread::sleep(std::time::Duration::from_micros(after_us));
    let was_running = matches!(child.try_wait(), Ok(None));
    let _ = child.kill();
    let _ = child.wait();
    Ok(was_running)
}

pub fn run_anthem(bins: &Binaries, args: &[String], cwd: &Path, stdin: Option<&[u8]>, env: &Env, extra_env: &[(String, String)], timeout_s: u64) -> std::io::Result<ProcOut> {
    let mut cmd = build_command(bins, args, cwd, env, extra_env);
    run_built(&mut cmd, stdin, env, timeout_s)
}

fn build_command(bins: &Binaries, args: &[String], cwd: &Path, env: &Env, extra_env: &[(String, String)]) -> Command {
    let mut cmd = Command::new(&bins.anthem);
    cmd.args(args).current_dir(cwd);
    cmd.env_clear();
    cmd.env("PATH", "/usr/bin:/bin");
    cmd.env("HOME", "/nonexistent");
    if env.preload {
        cmd.env("LD_PRELOAD", &bins.preload);
        if let Some(log) = INTERPOSER_LOG.get() {
            cmd.env("VERIF_ENV_LOG", log);
        }
        if let Some(h) = env.hash_seed {
            cmd.env("VERIF_ENV_HASHSEED", h.to_string());
        }
        if env.dir_mode != "natural" {
            cmd.env("VERIF_ENV_DIRMODE", &env.dir_mode);
            cmd.env("VERIF_ENV_DIRSEED", env.dir_seed.to_string());
        }
        if let Some(c) = env.cpus {
            cmd.env("VERIF_ENV_CPUS", c.to_string());
        }
        if let Some(o) = env.clock_offset_ms {
            cmd.env("VERIF_ENV_CLOCK_OFFSET_MS", o.to_string());
        }
        if let Some(j) = env.clock_jump_ms {
            cmd.env("VERIF_ENV_CLOCK_JUMP_MS", j.to_string());
            cmd.env("VERIF_ENV_CLOCK_JUMP_EVERY", env.clock_jump_every.to_string());
        }
        if env.heap_pad > 0 {
            cmd.env("VERIF_ENV_HEAP_PAD", env.heap_pad.to_string());
        }
        if let Some((k, e)) = env.out_fail {
            cmd.env("VERIF_ENV_OWRITE_FAIL_AT", k.to_string());
            cmd.env("VERIF_ENV_OWRITE_ERRNO", e.to_string());
        }
        if let Some(n) = env.out_short_every {
            cmd.env("VERIF_ENV_OWRITE_SHORT_EVERY", n.to_string());
        }
        if !env.io_prefixes.is_empty() && (env.read_max.is_some() || env.read_eintr_every.is_some() || env.io_fail.is_some()) {
            cmd.env("VERIF_ENV_IO_PREFIX", env.io_prefixes.join(":"));
            if let Some(n) = env.read_max {
                cmd.env("VERIF_ENV_READ_MAX", n.to_string());
            }
            if let Some(k) = env.read_eintr_every {
                cmd.env("VERIF_ENV_READ_EINTR_EVERY", k.to_string());
            }
            if let Some((k, e)) = env.io_fail {
                cmd.env("VERIF_ENV_IO_FAIL_AT", k.to_string());
                cmd.env("VERIF_ENV_IO_ERRNO", e.to_string());
            }
        }
    }
    if env.stack_pad > 0 {
        cmd.env("VERIF_PAD", "x".repeat(env.stack_pad));
    }
    if let Some(l) = &env.locale {
        cmd.env("LANG", l);
        cmd.env("LC_ALL", l);
    }
    if let Some(t) = &env.tz {
        cmd.env("TZ", t);
    }
    if let Some(t) = &env.term {
        cmd.env("TERM", t);
    }
    if env.no_color {
        cmd.env("NO_COLOR", "1");
    }
    if let Some(c) = env.columns {
        cmd.env("COLUMNS", c.to_string());
    }
    for (k, v) in &env.extra_vars {
        cmd.env(k, v);
    }
    if env.other_cwd {
        cmd.current_dir("/");
    }
    for (k, v) in extra_env {
        cmd.env(k, v);
    }
    if env.aslr_off {
        unsafe {
            cmd.pre_exec(|| {
                // ADDR_NO_RANDOMIZE
                libc::personality(0x0040000);
                Ok(())
            });
        }
    }
    cmd
}

fn run_built(cmd: &mut Command, stdin: Option<&[u8]>, env: &Env, timeout_s: u64) -> std::io::Result<ProcOut> {
    cmd.stdin(if stdin.is_some() { Stdio::piped() } else { Stdio::null() });
    cmd.stdout(Stdio::piped()).stderr(Stdio::piped());
    let mut child = cmd.spawn()?;
    // watchdog: the only wall-clock bound in the harness; turns a hang into a report
    let pid = child.id() as i32;
    let done = std::sync::Arc::new((std::sync::Mutex::new(false), std::sync::Condvar::new()));
    let done2 = done.clone();
    let timed_out = std::sync::Arc::new(std::sync::atomic::AtomicBool::new(false));
    let timed_out2 = timed_out.clone();
    let watchdog = std::thread::spawn(move || {
        let (m, cv) = &*done2;
        let g = m.lock().unwrap();
        let (g, res) = cv.wait_timeout_while(g, std::time::Duration::from_secs(timeout_s.max(1)), |d| !*d).unwrap();
        if res.timed_out() && !*g {
            timed_out2.store(true, std::sync::atomic::Ordering::SeqCst);
            unsafe {
                libc::kill(pid, libc::SIGKILL);
            }
        }
    });
    if let Some(data) = stdin {
        let mut w = child.stdin.take().unwrap();
        let chunk = env.stdin_chunk.max(1);
        let mut sent = 0usize;
        let mut paused = false;
        for piece in data.chunks(chunk) {
            if let (Some(ms), false) = (env.stdin_pause_ms, paused) {
                if sent >= data.len() / 2 {
                    let _ = w.flush();
                    std::thread::sleep(std::time::Duration::from_millis(ms));
                    paused = true;
                }
            }
            sent += piece.len();
            if w.write_all(piece).is_err() {
                break;
            }
            if chunk < 4096 {
                let _ = w.flush();
            }
        }
        drop(w);
    }
    let out = child.wait_with_output();
    {
        let (m, cv) = &*done;
        *m.lock().unwrap() = true;
        cv.notify_all();
    }
    let _ = watchdog.join();
    let out = out?;
    use std::os::unix::process::ExitStatusExt;
    Ok(ProcOut {
        code: out.status.code(),
        signal: out.status.signal(),
        stdout: out.stdout,
        stderr: out.stderr,
        timed_out: timed_out.load(std::sync::atomic::Ordering::SeqCst),
    })
}

/// First differing byte offset of two byte strings (None if equal).
pub fn first_diff(a: &[u8], b: &[u8]) -> Option<usize> {
    if a == b {
        return None;
    }
    Some(a.iter().zip(b.iter()).position(|(x, y)| x != y).unwrap_or(a.len().min(b.len())))
}

pub fn excerpt(a: &[u8], at: usize) -> String {
    let lo = at.saturating_sub(60);
    let hi = (at + 60).min(a.len());
    String::from_utf8_lossy(&a[lo..hi]).replace('\n', "\\n")
}
