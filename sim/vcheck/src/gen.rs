//! Scenario generation for C10: everything is drawn from one integer.
use crate::corpus::Task;
use anthem_simrt::plan::{Exit, Fault, Outcome, Plan, Rng, content_key};
use serde::{Deserialize, Serialize};
use std::fs;

#[derive(Clone, Debug, Serialize, Deserialize)]
pub struct Case {
    pub task_id: String,
    /// Input files (name, content), materialised into a scratch directory for the run.
    pub files: Vec<(String, String)>,
    /// Task options that shape the claim (equivalence, fixed direction, bypass-tightness).
    pub options: Vec<String>,
    /// File arguments in order.
    pub file_args: Vec<String>,
    /// Drawn flags that shape the emitted problems.
    pub flags: Vec<String>,
    /// Drawn flags that only concern proof search (-n, -m, -t, --no-timing).
    pub run_flags: Vec<String>,
    pub save_problems: bool,
    /// The --save-problems directory already holds longer files of the same names (left by an earlier task).
    #[serde(default)]
    pub stale_out: bool,
    pub instances: usize,
    pub cpus: usize,
    pub mix: String,
    pub plan: Plan,
}

impl Case {
    pub fn placeholder() -> Case {
        Case { task_id: String::new(), files: vec![], options: vec![], file_args: vec![], flags: vec![], run_flags: vec![], save_problems: false, stale_out: false, instances: 1, cpus: 1, mix: String::new(), plan: Plan::quiet() }
    }

    pub fn shape_key(&self) -> String {
        let mut s = String::new();
        for (n, c) in &self.files {
            s.push_str(n);
            s.push('\0');
            s.push_str(&content_key(c.as_bytes()));
            s.push('\0');
        }
        s.push_str(&self.options.join(" "));
        s.push('\0');
        s.push_str(&self.flags.join(" "));
        s.push('\0');
        s.push_str(&self.file_args.join(" "));
        s
    }
}

pub struct Tier {
    pub thorough: bool,
}

const NOISE: &[&str] = &[
    "% Running in auto input_syntax mode. Trying TPTP",
    "% Refutation found. Thanks to Tanya!",
    "% SZS output start Proof for stdin",
    "% SZS output end Proof for stdin",
    "% ------------------------------",
    "% Version: Vampire 4.8 (commit 8d999c135 on 2023-07-12 16:43:10 +0000)",
    "% Termination reason: Refutation",
    "% Termination reason: Time limit",
    "% Memory used [KB]: 5500",
    "% Time elapsed: 0.012 s",
    "% (12345)Success in time 0.03 s",
    "1. ! [X0 : $int] : (p(X0) => q(X0)) [input]",
    "% status of the art: \u{2200}x \u{2203}y (x \u{2192} y)",
    "",
    "Theorem",
    "% Status: Theorem",
    "status Theorem for stdin",
];

pub const SZS_NOT_PROVEN: &[&str] = &["CounterSatisfiable", "ContradictoryAxioms", "Timeout", "MemoryOut", "GaveUp", "Error"];

pub const UNKNOWN_WORDS: &[&str] = &[
    "Satisfiable", "Unsatisfiable", "Unknown", "theorem", "Theorems", "TheoremX", "NoTheorem", "Theorem_", "THEOREM",
    "InputError", "ResourceOut", "Inappropriate", "User", "Theorem2", "_Theorem", "Equivalent", "Tautology",
];

fn noise(rng: &mut Rng, max_lines: u64) -> Vec<u8> {
    let mut out = vec![];
    for _ in 0..rng.below(max_lines + 1) {
        out.extend_from_slice(rng.pick(NOISE).as_bytes());
        out.push(b'\n');
    }
    out
}

fn status_line(rng: &mut Rng, word: &str, name: &str) -> Vec<u8> {
    let who = match rng.below(3) {
        0 => "",
        1 => "stdin",
        _ => name,
    };
    let prefix = *rng.pick(&["% ", "% ", "", "%% ", "(1234) % "]);
    format!("{prefix}SZS status {word} for {who}\n").into_bytes()
}

/// A proof log larger than a pipe buffer (70-260 KB).
fn big_noise(rng: &mut Rng) -> Vec<u8> {
    let mut out = vec![];
    let target = 70_000 + rng.below(190_000) as usize;
    let mut i = 0u64;
    while out.len() < target {
        out.extend_from_slice(format!("{i}. ! [X{i} : $int] : (p(X{i}) => q(X{i})) [resolution {},{}]\n", i / 2, i / 3).as_bytes());
        i += 1;
    }
    out
}

pub fn theorem(rng: &mut Rng, name: &str, benign: bool) -> Outcome {
    let mut stdout = if benign { noise(rng, 6) } else { vec![] };
    let big = benign && rng.pct(4);
    if big && rng.pct(50) {
        stdout.extend(big_noise(rng));
    }
    let line = status_line(rng, "Theorem", name);
    if benign && !big && rng.pct(6) {
        // chatter in front of the status line so that the line lies across a buffer boundary
        let boundary = *rng.pick(&[4096usize, 8192, 8192, 16384, 65536]);
        let before = 1 + rng.below(line.len() as u64 - 2) as usize;
        let start = boundary - before;
        let mut i = 0u64;
        while stdout.len() + 80 < start {
            stdout.extend_from_slice(format!("% strategy {i}: lrs+10_1_drc=off:sp=reverse_frequency:to=lpo_{} failed after {} ms\n", i * 7, i % 90).as_bytes());
            i += 1;
        }
        if stdout.len() < start {
            let fill = start - stdout.len();
            stdout.extend(std::iter::repeat(b'%').take(fill - 1));
            stdout.push(b'\n');
        }
    }
    stdout.extend_from_slice(&line);
    if big && stdout.len() < 70_000 {
        stdout.extend(big_noise(rng));
    }
    if benign {
        stdout.extend(noise(rng, 6));
        if rng.pct(15) {
            stdout.extend_from_slice(&line); // the same status line again
        }
        if rng.pct(10) {
            // no trailing newline at the very end
            while stdout.last() == Some(&b'\n') {
                stdout.pop();
            }
        }
    }
    Outcome {
        class: "Theorem".into(),
        proven: true,
        stdout,
        stderr: if benign && rng.pct(30) { if rng.pct(5) { big_noise(rng) } else { noise(rng, 3) } } else { vec![] },
        exit: Exit::Code(0),
        compute_steps: if benign { rng.below(40) as u32 } else { 0 },
        sim_ms: 1 + rng.below(900),
    }
}

/// A prover run that, per the property statement, did not print "SZS status Theorem".
pub fn not_proven(rng: &mut Rng, name: &str, time_limit_s: u64) -> Outcome {
    let kind = rng.below(7);
    let (class, stdout, stderr, exit): (String, Vec<u8>, Vec<u8>, Exit) = match kind {
        0 | 1 => {
            let w = *rng.pick(SZS_NOT_PROVEN);
            let mut o = noise(rng, 4);
            o.extend(status_line(rng, w, name));
            o.extend(noise(rng, 4));
            (format!("szs:{w}"), o, noise(rng, 2), Exit::Code(*rng.pick(&[0, 0, 1, 2, 3])))
        }
        2 => {
            // ran into the time limit
            let mut o = noise(rng, 3);
            o.extend(status_line(rng, "Timeout", name));
            ("timeout_by_clock".into(), o, vec![], Exit::Code(*rng.pick(&[0, 1])))
        }
        3 => {
            let w = *rng.pick(UNKNOWN_WORDS);
            let mut o = noise(rng, 4);
            o.extend(status_line(rng, w, name));
            o.extend(noise(rng, 2));
            (format!("unknown:{w}"), o, vec![], Exit::Code(*rng.pick(&[0, 1])))
        }
        4 => {
            let variants: &[&str] = &[
                "",
                "Theorem\n",
                "% SZS status\n",
                "% SZS status \n",
                "% SZS statusTheorem for stdin\n",
                "% SZS Theorem for stdin\n",
                "% SZS  status Theorem for stdin\n",
                "% szs status Theorem for stdin\n",
                "% SZS status: Theorem for stdin\n",
                "% SZS status\nTheorem for stdin\n",
                "% SZS status -Theorem for stdin\n",
            ];
            let v = *rng.pick(variants);
            let mut o = noise(rng, 3);
            o.extend_from_slice(v.as_bytes());
            o.extend(noise(rng, 3));
            (format!("nostatus:{}", v.trim_end().replace('\n', "\\n")), o, noise(rng, 2), Exit::Code(*rng.pick(&[0, 0, 1])))
        }
        5 => {
            // invalid UTF-8 and no valid status line anywhere
            let mut o = noise(rng, 2);
            let mut e = vec![];
            let garbage: &[u8] = *rng.pick(&[&b"\xff\xfe\x00garbage\n"[..], &b"\xc3\x28 broken\n"[..], &b"\x80\n"[..], &b"abc\xf0\x28\x8c\xbc\n"[..]]);
            if rng.pct(60) {
                o.extend_from_slice(garbage);
            } else {
                e.extend_from_slice(garbage);
            }
            o.extend(noise(rng, 2));
            ("nonutf8".into(), o, e, Exit::Code(*rng.pick(&[0, 1])))
        }
        _ => {
            let exit = *rng.pick(&[Exit::Code(1), Exit::Code(134), Exit::Code(139), Exit::Code(255), Exit::Signal(6), Exit::Signal(9), Exit::Signal(11)]);
            let mut o = noise(rng, 3);
            if rng.pct(50) {
                o.extend_from_slice(b"% SZS stat"); // cut off in the middle of the line
            }
            (format!("crash:{exit:?}"), o, b"Aborted (core dumped)\n".to_vec(), exit)
        }
    };
    let sim_ms = if kind == 2 { time_limit_s * 1000 } else { 1 + rng.below(900) };
    Outcome { class, proven: false, stdout, stderr, exit, compute_steps: rng.below(40) as u32, sim_ms }
}

pub fn draw_fault(rng: &mut Rng, approx_len: usize) -> Fault {
    match rng.below(4) {
        0 => Fault::SpawnErr { errno: *rng.pick(&[anthem_simrt::process::EAGAIN, anthem_simrt::process::ENOMEM, anthem_simrt::process::ENOENT]) },
        1 => Fault::WriteErr { nth: rng.below(60) as usize, errno: *rng.pick(&[anthem_simrt::process::EIO, anthem_simrt::process::EPIPE]) },
        2 => Fault::WaitErr { errno: *rng.pick(&[anthem_simrt::process::ECHILD, anthem_simrt::process::EINTR]) },
        _ => Fault::EarlyExit {
            after: match rng.below(4) {
                0 => 0,
                1 => 1 + rng.below(16) as usize,
                _ => rng.below(approx_len.max(1) as u64) as usize,
            },
            stdout: noise(rng, 3),
            exit: *rng.pick(&[Exit::Code(0), Exit::Code(1), Exit::Signal(9), Exit::Signal(11)]),
        },
    }
}

/// Phase 1: the part of the case that decides which problems are emitted.
pub fn draw_shape(rng: &mut Rng, tasks: &[Task], tier: &Tier) -> Case {
    // big tasks only in thorough and rarely
    let task = loop {
        let t = rng.pick(tasks);
        if tasks.iter().all(|t| t.large) {
            break t;
        }
        if t.weight > 6_000 {
            if !tier.thorough || !rng.pct(4) {
                continue;
            }
        } else if (t.weight > 1_500 || t.heavy) && !rng.pct(if tier.thorough { 40 } else { 15 }) {
            continue;
        }
        break t;
    };
    let files = task
        .files
        .iter()
        .map(|f| (f.clone(), fs::read_to_string(task.dir.join(f)).unwrap_or_default()))
        .collect();
    let mut flags = vec![];
    if !task.has_direction && rng.pct(50) {
        flags.push("--direction".to_string());
        flags.push(rng.pick(&["universal", "forward", "backward"]).to_string());
    }
    if rng.pct(50) {
        flags.push("--decomposition".to_string());
        flags.push(rng.pick(&["independent", "sequential"]).to_string());
    }
    if rng.pct(25) {
        flags.push("--no-simplify".to_string());
    }
    if rng.pct(25) {
        flags.push("--no-eq-break".to_string());
    }
    if rng.pct(15) {
        // mu is only accepted for strong equivalence
        let strong = task.options.iter().any(|o| o == "strong" || o == "--equivalence=strong");
        flags.push("--formula-representation".to_string());
        flags.push(if strong { rng.pick(&["tau-star", "mu"]).to_string() } else { "tau-star".to_string() });
    }
    Case {
        task_id: task.id.clone(),
        files,
        options: task.options.clone(),
        file_args: task.files.clone(),
        flags,
        run_flags: vec![],
        save_problems: false,
        stale_out: false,
        instances: 1,
        cpus: 1,
        mix: String::new(),
        plan: Plan::quiet(),
    }
}

/// Phase 2: proof-search flags, prover outcomes, faults and benign perturbations, given the reference emission.
pub fn draw_run(rng: &mut Rng, case: &mut Case, reference: &[(String, Vec<u8>)], tier: &Tier) {
    let n_opt = *rng.pick(&[0usize, 1, 1, 2, 2, 3, 3, 4, 5, 6, 7, 8]);
    let m_opt = *rng.pick(&[0usize, 1, 1, 2, 4]);
    let t_opt = *rng.pick(&[1u64, 5, 60]);
    case.cpus = *rng.pick(&[1usize, 2, 3, 8, 64]);
    // -n 1 is clap's default: sometimes leave it out
    if !(n_opt == 1 && rng.pct(50)) {
        case.run_flags.push("-n".into());
        case.run_flags.push(n_opt.to_string());
    }
    if !(m_opt == 1 && rng.pct(50)) {
        case.run_flags.push(if rng.pct(50) { "-m".into() } else { "--prover-cores".into() });
        case.run_flags.push(m_opt.to_string());
    }
    if t_opt != 60 || rng.pct(50) {
        case.run_flags.push("-t".into());
        case.run_flags.push(t_opt.to_string());
    }
    if rng.pct(50) {
        case.run_flags.push("--no-timing".into());
    }
    case.save_problems = rng.pct(40);
    case.stale_out = case.save_problems && rng.pct(40);
    let cores = if m_opt == 0 { case.cpus } else { m_opt };
    case.instances = if n_opt == 0 { (case.cpus / cores).max(1) } else { n_opt };

    let total: usize = reference.iter().map(|(_, b)| b.len()).sum();
    let largest = reference.iter().map(|(_, b)| b.len()).max().unwrap_or(0);

    let mut plan = Plan::quiet();
    plan.draw_seed = rng.next();
    // what a prover says when what it read is none of the emitted problems (a truncated hand-over, say):
    // usually it gives up, sometimes it claims a proof all the same - which must never count
    if rng.pct(35) {
        plan.foreign.stdout = b"% SZS status Theorem for stdin\n".to_vec();
        plan.foreign.exit = Exit::Code(0);
        plan.foreign.class = "foreign-claims-theorem".into();
    }
    let benign = rng.pct(75);
    if benign {
        // keep the number of scheduling steps in check for large problems
        let min_cap = (largest / 150).max(1);
        plan.pipe_capacity = (*rng.pick(&[1usize, 7, 64, 512, 4096, 65536, 1 << 20])).max(min_cap);
        plan.read_chunk = (*rng.pick(&[1usize, 13, 512, 65536])).max(min_cap);
        plan.out_piece = *rng.pick(&[0usize, 0, 0, 5, 11, 37, 4096]);
        plan.short_write_pct = *rng.pick(&[0u8, 0, 10, 50]);
        plan.eintr_pct = *rng.pick(&[0u8, 0, 5, 30]);
        plan.write_yield_every = if total > 200_000 { *rng.pick(&[0u32, 64, 997]) } else { *rng.pick(&[0u32, 1, 7, 64]) };
        plan.clock_step_ms = *rng.pick(&[0u64, 1, 17, 1000]);
        plan.clock_jump_pct = *rng.pick(&[0u8, 0, 10]);
    }

    let mix = match rng.below(4) {
        0 => "all_theorem",
        1 => "one_bad",
        _ => "free",
    };
    case.mix = mix.to_string();
    let n = reference.len();
    let bad_index = if n > 0 { rng.below(n as u64) as usize } else { 0 };
    let one_bad_by_fault = rng.pct(35);

    for (i, (name, bytes)) in reference.iter().enumerate() {
        let stem = name.trim_end_matches(".p");
        let bad = match mix {
            "all_theorem" => false,
            "one_bad" => i == bad_index && !one_bad_by_fault,
            _ => rng.pct(25),
        };
        let o = if bad { not_proven(rng, stem, t_opt) } else { theorem(rng, stem, benign) };
        // identical problems share one outcome (keyed by content); the first draw wins
        plan.outcomes.entry(content_key(bytes)).or_insert(o);
    }

    if n > 0 {
        match mix {
            "one_bad" if one_bad_by_fault => {
                if rng.pct(15) {
                    plan.spawn_all_enoent = true;
                } else {
                    plan.faults.insert(bad_index, draw_fault(rng, largest));
                }
            }
            "free" => {
                if rng.pct(6) {
                    plan.spawn_all_enoent = true;
                } else if rng.pct(40) {
                    for _ in 0..1 + rng.below(2) {
                        plan.faults.insert(rng.below(n as u64) as usize, draw_fault(rng, largest));
                    }
                }
            }
            _ => {}
        }
    }
    let _ = tier;
    case.plan = plan;
}
