//! The C10 oracle: invariants I1-I6 over the recorded history of one execution.
use crate::exec::{Prepared, Run};
use crate::gen::Case;
use anthem_simrt::sched::ExecStatus;
use serde::{Deserialize, Serialize};

#[derive(Clone, Debug, Serialize, Deserialize, PartialEq, Eq)]
pub struct Violation {
    /// Stable class name; minimisation keeps the class fixed.
    pub class: String,
    pub detail: String,
}

fn v(class: &str, detail: String) -> Violation {
    Violation { class: class.to_string(), detail }
}

#[derive(Clone, Debug, Default, Serialize)]
pub struct Facts {
    pub problems: usize,
    pub attempts: usize,
    pub delivered: usize,
    pub all_proven: bool,
    pub verdict: Option<bool>,
    /// Position (in completion order) of the first attempt that was not proven: "first", "middle", "last", or "" when none.
    pub decider: String,
    /// Completion order as indices into the reference (or -1 for attempts that delivered no full problem).
    pub completion: Vec<i64>,
    pub pool_path: bool,
}

pub fn check(case: &Case, prep: &Prepared, run: &Run) -> (Vec<Violation>, Facts) {
    let mut out = vec![];
    let mut facts = Facts::default();
    let sim = &run.result.sim;
    let reference = &prep.reference;
    facts.problems = reference.len();
    facts.attempts = sim.children.len();
    facts.pool_path = sim.channels > 0;

    if run.result.foreign_thread {
        // code under test started threads of its own: E1 cannot own their schedule, nothing it observed is trusted
        out.push(v("E1-inapplicable", "a seam was reached from a thread the simulator does not own, or thread-local state of the tree collided between simulated threads".into()));
        return (out, facts);
    }

    // I6: progress — main returned Ok, no deadlock, no panic anywhere, within the step bound.
    match &run.result.status {
        ExecStatus::Returned => {}
        // (an error return after the verdict has been printed is a way of setting the exit status; the statement is about the verdict)
        ExecStatus::MainErr(e) => {
            let text = String::from_utf8_lossy(&sim.stdout);
            if !text.lines().any(|l| l.starts_with("> Success!") || l.starts_with("> Failure!")) {
                out.push(v("I6-main-error", e.clone()));
            }
        }
        ExecStatus::Panic(m) => out.push(v("I6-panic", m.clone())),
        ExecStatus::Deadlock(m) => out.push(v("I6-deadlock", m.clone())),
        ExecStatus::StepBound => out.push(v("I6-step-bound", "execution exceeded its step bound".into())),
    }
    let returned = matches!(run.result.status, ExecStatus::Returned | ExecStatus::MainErr(_));
    for c in &sim.children {
        // a prover killed after the clock anthem reads showed its time limit used up is anthem's right; before that it is not
        let limit_ms = c.args.iter().position(|a| a == "--time_limit").and_then(|i| c.args.get(i + 1)).and_then(|v| v.parse::<u64>().ok()).map(|s| s * 1000);
        let within = limit_ms.map(|l| c.killed_clock_ms.saturating_sub(c.spawn_clock_ms) < l).unwrap_or(true);
        if c.killed && within {
            out.push(v("I6-prover-killed", format!("anthem killed prover #{} while it was still running ({}); its answer never arrived", c.ordinal, if c.output_blocked { "blocked because nobody was reading its output pipe" } else { "not blocked" })));
        }
    }

    // I1 / I2: what each child read to EOF is one of the reference problems, none twice.
    let mut used = vec![0usize; reference.len()];
    let mut child_problem: Vec<Option<usize>> = vec![None; sim.children.len()];
    for c in &sim.children {
        if c.spawn_err.is_some() || !c.exited {
            continue;
        }
        if matches!(c.fault_fired.as_deref(), Some(f) if f.starts_with("write_err")) {
            // the injected write error cut this hand-over short; what the child saw is a prefix
            continue;
        }
        if !c.eof {
            if c.fault_fired.is_none() && returned {
                out.push(v("I2-unread", format!("child #{} exited without reading its input and no fault was injected", c.ordinal)));
            }
            continue;
        }
        // find an unused reference problem with these bytes
        let mut hit = None;
        let mut any = false;
        for (i, (_, b)) in reference.iter().enumerate() {
            if *b == c.stdin {
                any = true;
                if used[i] == 0 {
                    hit = Some(i);
                    break;
                }
            }
        }
        match (hit, any) {
            (Some(i), _) => {
                used[i] += 1;
                child_problem[c.ordinal] = Some(i);
                facts.delivered += 1;
            }
            (None, true) => out.push(v("I1-double-handover", format!("child #{} received a problem that had already been handed to a prover ({} bytes)", c.ordinal, c.stdin.len()))),
            (None, false) => {
                let near = reference.iter().find(|(_, b)| b.starts_with(&c.stdin) || c.stdin.starts_with(b));
                let hint = match near {
                    Some((n, b)) => format!("a prefix/extension of {n} ({} of {} bytes)", c.stdin.len(), b.len()),
                    None => "not related to any reference problem by prefix".to_string(),
                };
                out.push(v("I2-foreign-handover", format!("child #{} read {} bytes that are not byte-identical to any problem of --save-problems: {hint}", c.ordinal, c.stdin.len())));
            }
        }
    }

    // I3: every problem handed over exactly once (one miss allowed per fired spawn/write/early-exit fault).
    if returned {
        if sim.children.len() != reference.len() {
            out.push(v("I3-attempts", format!("{} prover start attempts for {} emitted problems", sim.children.len(), reference.len())));
        }
        let excused = sim
            .children
            .iter()
            .filter(|c| matches!(c.fault_fired.as_deref(), Some(f) if f.starts_with("spawn_") || f.starts_with("write_err") || f.starts_with("early_exit")))
            .count();
        let missing = used.iter().filter(|u| **u == 0).count();
        if missing > excused {
            let names: Vec<&str> = reference.iter().zip(&used).filter(|(_, u)| **u == 0).map(|((n, _), _)| n.as_str()).collect();
            out.push(v("I3-not-handed-over", format!("{missing} problem(s) never reached a prover ({excused} excused by injected faults): {}", names.join(","))));
        }
        for c in &sim.children {
            if c.spawn_err.is_none() && !c.piped.0 {
                out.push(v("I3-not-handed-over", format!("child #{} was started without a stdin pipe", c.ordinal)));
            }
        }
    }

    // I4: same bytes and names as --save-problems; distinct names announced.
    let text = String::from_utf8_lossy(&sim.stdout).into_owned();
    let lines: Vec<&str> = text.lines().collect();
    if returned {
        let mut announced: Vec<String> = lines
            .iter()
            .filter_map(|l| l.strip_prefix("> Proving ").and_then(|r| r.strip_suffix("...")))
            .map(str::to_string)
            .collect();
        let n_announced = announced.len();
        announced.sort();
        announced.dedup();
        if announced.len() != n_announced {
            out.push(v("I4-names", "two problems were announced under the same name".into()));
        }
        let mut ref_names: Vec<String> = reference.iter().map(|(n, _)| n.trim_end_matches(".p").to_string()).collect();
        ref_names.sort();
        // (the statement asks for distinct names, not for a particular wording of the progress lines: the announced
        // names are only compared with each other; the file names of the emission are distinct by construction)
        let _ = &ref_names;
        if let Some(saved) = &run.saved {
            if saved.len() != reference.len() || saved.iter().zip(reference.iter()).any(|(a, b)| a.0 != b.0) {
                out.push(v("I4-saved-set", format!("the run saved {:?}, the reference emission has {:?}", saved.iter().map(|s| &s.0).collect::<Vec<_>>(), reference.iter().map(|s| &s.0).collect::<Vec<_>>())));
            } else {
                for ((n, a), (_, b)) in saved.iter().zip(reference.iter()) {
                    if a != b {
                        out.push(v("I4-saved-bytes", format!("{n}: file saved by the proving run differs from the file saved by --no-proof-search")));
                    }
                }
            }
        }
    }

    // I5: exactly one verdict, last "> " line, success iff every attempt delivered a proof.
    let verdicts: Vec<(usize, bool)> = lines
        .iter()
        .enumerate()
        .filter_map(|(i, l)| {
            if l.starts_with("> Success!") {
                Some((i, true))
            } else if l.starts_with("> Failure!") {
                Some((i, false))
            } else {
                None
            }
        })
        .collect();
    let all_proven = sim.children.iter().all(|c| c.delivered_proven) && sim.children.len() == reference.len();
    facts.all_proven = all_proven;
    if returned {
        // The statement fixes the verdict, not the layout around it: further lines may follow, and a verdict may be
        // repeated (a summary block, say) as long as all verdict lines agree.
        if verdicts.is_empty() {
            out.push(v("I5-no-verdict", "no '> Success!' / '> Failure!' line was printed".into()));
        } else if verdicts.iter().any(|(_, s)| *s != verdicts[0].1) {
            out.push(v("I5-contradictory-verdicts", format!("{} verdict lines that do not agree", verdicts.len())));
        } else {
            let success = verdicts[0].1;
            facts.verdict = Some(success);
            // an execution in which anthem killed a prover (after its limit) has no stated expectation for that prover
            let any_killed = sim.children.iter().any(|c| c.killed);
            if success != all_proven && !any_killed {
                let bad: Vec<String> = sim
                    .children
                    .iter()
                    .filter(|c| !c.delivered_proven)
                    .map(|c| format!("#{}:{}", c.ordinal, c.fault_fired.clone().or(c.outcome_class.clone()).unwrap_or_default()))
                    .collect();
                if success {
                    out.push(v("I5-false-success", format!("'> Success!' although not every prover run printed SZS status Theorem: {}", bad.join(" "))));
                } else {
                    out.push(v("I5-false-failure", format!("'> Failure!' although all {} prover runs printed SZS status Theorem", sim.children.len())));
                }
            }
        }
    }

    // bookkeeping for the evidence: completion order and which result decided the verdict
    let mut order: Vec<&anthem_simrt::state::ChildRec> = sim.children.iter().filter(|c| c.exited).collect();
    order.sort_by_key(|c| c.exit_seq);
    facts.completion = order.iter().map(|c| child_problem[c.ordinal].map(|i| i as i64).unwrap_or(-1)).collect();
    let bad_positions: Vec<usize> = order.iter().enumerate().filter(|(_, c)| !c.delivered_proven).map(|(i, _)| i).collect();
    facts.decider = match (bad_positions.as_slice(), order.len()) {
        ([], _) => String::new(),
        ([p], n) if n >= 3 && *p == 0 => "first".into(),
        ([p], n) if n >= 3 && *p == n - 1 => "last".into(),
        ([_], n) if n >= 3 => "middle".into(),
        _ => "several".into(),
    };
    let _ = case;
    (out, facts)
}
