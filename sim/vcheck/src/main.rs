//! vcheck — E1 driver.
//!
//!   vcheck c10 --tier quick|thorough [--seed N] [--workers W] [--scenarios N] [--evidence FILE]
//!   vcheck c10-worker --seed S --tier T --start A --stride W --count N      (internal; JSON lines on stdout)
//!   vcheck c10-replay FILE [--log]
//!
//! Exit codes: 0 property held on everything explored, 1 violation (VIOLATION line printed), 2 harness error.
#![recursion_limit = "512"]
mod c10;
mod c10x;
mod c18;
mod c20;
mod corpus;
mod e2;
mod exec;
mod gen;
mod oracle;
mod workload;

use c10::{Replay, ScenarioReport};
use exec::Scratch;
use gen::Tier;
use std::collections::{BTreeMap, BTreeSet};
use std::io::{BufRead, BufReader, Write};
use std::path::PathBuf;
use std::process::{Command, Stdio};
use std::time::Instant;

/// In a subprocess that runs the tree under test, the report to the parent must not share a descriptor with anything
/// the tree may write to: descriptor 1 is handed to a scratch file at start-up (whatever the tree prints there by other
/// means than the hooked `print!`/`println!` is kept, and noticed), and the report goes out on a private duplicate.
pub struct Protocol {
    out: std::fs::File,
    stray: std::fs::File,
    stray_seen: u64,
}

impl Protocol {
    pub fn take_over_stdout() -> Protocol {
        use std::os::unix::io::{AsRawFd, FromRawFd};
        let path = std::env::temp_dir().join(format!("vcheck-stray-{}", std::process::id()));
        let stray = std::fs::OpenOptions::new().create(true).truncate(true).read(true).write(true).open(&path).unwrap_or_else(|e| harness_error(&format!("{}: {e}", path.display())));
        let _ = std::fs::remove_file(&path); // anonymous from here on
        unsafe {
            let private = libc::dup(1);
            if private < 0 || libc::dup2(stray.as_raw_fd(), 1) < 0 {
                harness_error("cannot take over stdout");
            }
            Protocol { out: std::fs::File::from_raw_fd(private), stray, stray_seen: 0 }
        }
    }

    /// Before re-executing this program: descriptor 1 becomes the report channel again.
    pub fn restore_stdout(&mut self) {
        use std::os::unix::io::AsRawFd;
        unsafe {
            libc::dup2(self.out.as_raw_fd(), 1);
        }
    }

    pub fn send(&mut self, line: &str) {
        use std::io::Write;
        let _ = self.out.write_all(line.as_bytes());
        let _ = self.out.write_all(b"\n");
        let _ = self.out.flush();
    }

    /// Bytes that reached descriptor 1 since the last call (written by the tree under test around the hooks).
    pub fn stray_bytes(&mut self) -> u64 {
        use std::io::Write;
        let _ = std::io::stdout().flush();
        let len = self.stray.metadata().map(|m| m.len()).unwrap_or(0);
        let new = len.saturating_sub(self.stray_seen);
        self.stray_seen = len;
        new
    }
}

pub fn verif_home() -> PathBuf {
    PathBuf::from(std::env::var("VERIF_HOME").unwrap_or_else(|_| "/verif".into()))
}

pub struct Args {
    pub map: BTreeMap<String, String>,
    pub pos: Vec<String>,
}

impl Args {
    pub fn parse(args: &[String]) -> Args {
        let mut map = BTreeMap::new();
        let mut pos = vec![];
        let mut i = 0;
        while i < args.len() {
            if let Some(k) = args[i].strip_prefix("--") {
                if i + 1 < args.len() && !args[i + 1].starts_with("--") {
                    map.insert(k.to_string(), args[i + 1].clone());
                    i += 1;
                } else {
                    map.insert(k.to_string(), "true".into());
                }
            } else {
                pos.push(args[i].clone());
            }
            i += 1;
        }
        Args { map, pos }
    }
    pub fn get(&self, k: &str) -> Option<&str> {
        self.map.get(k).map(String::as_str)
    }
    pub fn u64(&self, k: &str, default: u64) -> u64 {
        self.get(k).and_then(|v| v.parse().ok()).unwrap_or(default)
    }
}

pub fn seed_from(args: &Args) -> u64 {
    if let Some(s) = args.get("seed") {
        return s.parse().unwrap_or(1);
    }
    std::env::var("VERIF_SEED").ok().and_then(|s| s.parse().ok()).unwrap_or(20260925)
}

pub fn harness_error(msg: &str) -> ! {
    eprintln!("HARNESS-ERROR: {msg}");
    std::process::exit(2);
}

fn main() {
    let argv: Vec<String> = std::env::args().collect();
    if argv.len() < 2 {
        harness_error("usage: vcheck c10|c10-worker|c10-replay|c18-inproc ...");
    }
    let args = Args::parse(&argv[2..]);
    anthem_simrt::sched::install_quiet_panic_hook();
    match argv[1].as_str() {
        "c10" => c10_parent(&args),
        "c10-worker" => c10_worker(&args),
        "c10-replay" => c10_replay(&args),
        "c10-try" => c10_try(&args),
        "c18" => c18::main(&args),
        "c18-replay" => c18::replay(&args),
        "c18-history" => c18::history(&args),
        "c20" => c20::main(&args),
        "c20-replay" => c20::replay(&args),
        other => harness_error(&format!("unknown subcommand {other}")),
    }
}

fn c10_worker(args: &Args) {
    let seed = args.u64("seed", 1);
    let tier = Tier { thorough: args.get("tier") == Some("thorough") };
    let start = args.u64("start", 0);
    let stride = args.u64("stride", 1);
    let count = args.u64("count", 1);
    let deadline = args.u64("deadline-s", 0);
    let t0 = Instant::now();
    let tasks = c10::tasks();
    if tasks.is_empty() {
        harness_error("no tasks found");
    }
    let mut scratch = Scratch::new(&format!("w{start}"));
    let mut proto = Protocol::take_over_stdout();
    let mut i = start;
    while i < count {
        if deadline > 0 && t0.elapsed().as_secs() >= deadline {
            proto.send(&serde_json::json!({"deadline_at": i}).to_string());
            break;
        }
        let mut rep = c10::run_scenario(seed, i, &tasks, &tier, &mut scratch);
        if proto.stray_bytes() > 0 {
            // the tree printed to stdout around the hooked macros: what E1 captured is not what a user would see
            rep.violations.clear();
            rep.violations.push(c10::Replay { property: "C10".into(), seed, index: i, k: 0, case: gen::Case::placeholder(), sched: anthem_simrt::sched::SchedSpec::Calm { overrides: vec![] }, max_steps: 0, violation: oracle::Violation { class: "E1-inapplicable".into(), detail: "the tree under test writes to stdout by other means than the hooked print macros".into() }, digest: String::new(), note: String::new() });
        }
        let tainted = rep.tainted;
        proto.send(&serde_json::to_string(&rep).unwrap());
        i += stride;
        if i >= count {
            proto.send("{\"done\":true}");
        }
        if tainted && i < count {
            // continue in a fresh process image (same stdout pipe): nothing of the aborted execution survives
            drop(scratch);
            let remaining = if deadline > 0 { deadline.saturating_sub(t0.elapsed().as_secs()).max(1) } else { 0 };
            use std::os::unix::process::CommandExt;
            proto.restore_stdout();
            let err = Command::new(std::env::current_exe().unwrap())
                .args(["c10-worker", "--seed", &seed.to_string(), "--tier", if tier.thorough { "thorough" } else { "quick" }, "--start", &i.to_string(), "--stride", &stride.to_string(), "--count", &count.to_string(), "--deadline-s", &remaining.to_string()])
                .exec();
            harness_error(&format!("re-exec of the worker failed: {err}"));
        }
    }
}

fn spawn_worker(seed: u64, tier: &str, start: u64, stride: u64, count: u64, deadline: u64) -> std::process::Child {
    Command::new(std::env::current_exe().unwrap())
        .args([
            "c10-worker",
            "--seed",
            &seed.to_string(),
            "--tier",
            tier,
            "--start",
            &start.to_string(),
            "--stride",
            &stride.to_string(),
            "--count",
            &count.to_string(),
            "--deadline-s",
            &deadline.to_string(),
        ])
        .stdin(Stdio::null())
        .stdout(Stdio::piped())
        .stderr(Stdio::piped())
        .spawn()
        .unwrap_or_else(|e| harness_error(&format!("cannot start worker: {e}")))
}

/// Raw violations seen so far by all workers of this run: beyond a few hundred, more of the same teach nothing,
/// and a thorough run on a broken tree need not take its full half hour.
static VIOLATIONS_SEEN: std::sync::atomic::AtomicU64 = std::sync::atomic::AtomicU64::new(0);
const ENOUGH_VIOLATIONS: u64 = 300;

struct WorkerOut {
    /// The parent killed the worker because it was still running long after the wall cap
    /// (code under test sleeping or spinning in real time, outside the simulator's control).
    stuck: bool,
    reports: Vec<ScenarioReport>,
    deadline_at: Option<u64>,
    status: std::process::ExitStatus,
    stderr: String,
    last_started: Option<u64>,
}

fn collect(child: std::process::Child, start: u64, stride: u64, kill_after_s: u64) -> WorkerOut {
    let mut child = child;
    let pid = child.id() as i32;
    let finished = std::sync::Arc::new((std::sync::Mutex::new(false), std::sync::Condvar::new()));
    let stuck = std::sync::Arc::new(std::sync::atomic::AtomicBool::new(false));
    let (finished2, stuck2) = (finished.clone(), stuck.clone());
    let watchdog = std::thread::spawn(move || {
        if kill_after_s == 0 {
            return;
        }
        let (m, cv) = &*finished2;
        let g = m.lock().unwrap();
        let (g, res) = cv.wait_timeout_while(g, std::time::Duration::from_secs(kill_after_s), |d| !*d).unwrap();
        if res.timed_out() && !*g {
            stuck2.store(true, std::sync::atomic::Ordering::SeqCst);
            unsafe {
                libc::kill(pid, libc::SIGKILL);
            }
        }
    });
    let out = child.stdout.take().unwrap();
    let mut err = child.stderr.take().unwrap();
    let err_thread = std::thread::spawn(move || {
        let mut s = String::new();
        let _ = std::io::Read::read_to_string(&mut err, &mut s);
        s
    });
    let mut reports = vec![];
    let mut deadline_at = None;
    let mut next = start;
    let mut enough = false;
    let mut finished_properly = false;
    for line in BufReader::new(out).lines() {
        let line = match line {
            Ok(l) => l,
            Err(_) => break,
        };
        if let Ok(v) = serde_json::from_str::<serde_json::Value>(&line) {
            if let Some(d) = v.get("deadline_at").and_then(|d| d.as_u64()) {
                deadline_at = Some(d);
                finished_properly = true;
                continue;
            }
            if v.get("done").is_some() {
                finished_properly = true;
                continue;
            }
        }
        match serde_json::from_str::<ScenarioReport>(&line) {
            Ok(r) => {
                next = r.i + stride;
                let n = r.violations.len() as u64;
                reports.push(r);
                if VIOLATIONS_SEEN.fetch_add(n, std::sync::atomic::Ordering::SeqCst) + n >= ENOUGH_VIOLATIONS {
                    enough = true;
                    unsafe {
                        libc::kill(pid, libc::SIGKILL);
                    }
                    break;
                }
            }
            Err(e) => harness_error(&format!("worker produced an unreadable line: {e}: {}", &line[..line.len().min(200)])),
        }
    }
    let status = child.wait().unwrap();
    {
        let (m, cv) = &*finished;
        *m.lock().unwrap() = true;
        cv.notify_all();
    }
    let _ = watchdog.join();
    let stderr = err_thread.join().unwrap_or_default();
    if enough {
        // stopped on purpose: neither stuck nor dead
        return WorkerOut { stuck: false, reports, deadline_at: Some(next), status: std::os::unix::process::ExitStatusExt::from_raw(0), stderr, last_started: Some(next) };
    }
    let mut status = status;
    if status.success() && !finished_properly && !stuck.load(std::sync::atomic::Ordering::SeqCst) {
        // the process ended "successfully" in the middle of its work: the tree under test called exit()
        status = std::os::unix::process::ExitStatusExt::from_raw(0x6500);
    }
    WorkerOut { stuck: stuck.load(std::sync::atomic::Ordering::SeqCst), reports, deadline_at, status, stderr, last_started: Some(next) }
}

#[derive(serde::Deserialize, Default)]
struct KnownFindings {
    #[serde(default)]
    findings: Vec<KnownFinding>,
}

#[derive(serde::Deserialize)]
pub struct KnownFinding {
    pub property: String,
    /// violation class the finding belongs to
    pub class: String,
    /// substring that must occur in the violation detail
    pub detail_contains: String,
    pub what: String,
}

pub fn load_known() -> Vec<KnownFinding> {
    let p = verif_home().join("known_findings.json");
    match std::fs::read_to_string(&p) {
        Ok(s) => match serde_json::from_str::<KnownFindings>(&s) {
            Ok(k) => k.findings,
            Err(e) => harness_error(&format!("{}: {e}", p.display())),
        },
        Err(_) => vec![],
    }
}

fn c10_parent(args: &Args) {
    let t0 = Instant::now();
    let seed = seed_from(args);
    let tier_name = args.get("tier").unwrap_or("quick").to_string();
    let thorough = tier_name == "thorough";
    let workers = args.u64("workers", std::thread::available_parallelism().map(|n| n.get() as u64).unwrap_or(8)).max(1);
    let scenarios = args.u64("scenarios", if thorough { 100_000 } else { 4_000 });
    let deadline = args.u64("max-wall-s", if thorough { 1800 } else { 150 });
    // The parent never runs the tree under test inside its own process: reference emissions come from the shipped
    // binary, executions from worker / c10-try subprocesses. A tree that aborts can only take a subprocess with it.
    exec::REFERENCE_VIA_BINARY.store(true, std::sync::atomic::Ordering::SeqCst);
    // Names of hooked seams the tree no longer goes through (written by bin/build from rustc's unused-import warnings)
    let bypassed: Vec<String> = std::fs::read_to_string(verif_home().join("target/e1_bypassed.txt")).map(|t| t.lines().map(str::to_string).filter(|l| !l.is_empty()).collect()).unwrap_or_default();
    let seams_bypassed = bypassed.iter().any(|n| matches!(n.as_str(), "Command" | "ThreadPool" | "channel" | "print" | "println" | "Arguments"));
    if seams_bypassed {
        println!("NOTE: the tree under test no longer goes through the hooked seam(s) {bypassed:?} (it reaches the real items by another path); the in-process engine would simulate nothing there, so the E2 engine decides");
    }
    let e2_only_requested = args.get("e2-only").is_some() || seams_bypassed;
    let scenarios = if e2_only_requested { 0 } else { scenarios };
    if e2_only_requested {
        exec::REFERENCE_VIA_BINARY.store(true, std::sync::atomic::Ordering::SeqCst);
        println!("NOTE: C10 runs in E2-only mode (the in-process engine is not available for this tree): shipped binary, real threads and pipes, stand-in prover; reference emissions come from the binary");
    }
    println!("C10 tier={tier_name} seed={seed} workers={workers} scenarios={scenarios} (per-scenario seed = mix(seed, index); wall cap {deadline}s)");

    // One supervisor thread per worker slot: a worker that dies is restarted after the scenario it died in.
    let t_start = Instant::now();
    let handles: Vec<_> = (0..workers)
        .map(|w| {
            let tier_name = tier_name.clone();
            std::thread::spawn(move || {
                let mut outs = vec![];
                let mut start = w;
                let mut restarts = 0;
                while start < scenarios {
                    let left = if deadline > 0 { deadline.saturating_sub(t_start.elapsed().as_secs()).max(1) } else { 0 };
                    let c = spawn_worker(seed, &tier_name, start, workers, scenarios, left);
                    let out = collect(c, start, workers, left + 45);
                    let died = !out.stuck && !out.status.success();
                    let next = out.last_started.unwrap_or(start);
                    let capped = out.deadline_at.is_some();
                    let stuck = out.stuck;
                    outs.push(out);
                    if !died || stuck || capped || restarts >= 40 {
                        break;
                    }
                    restarts += 1;
                    start = next + workers; // skip the scenario the worker died in
                }
                (w, outs)
            })
        })
        .collect();
    let mut reports: Vec<ScenarioReport> = vec![];
    let mut aborted: Vec<(u64, String)> = vec![];
    let mut capped = false;
    let mut e1_stuck = false;
    for h in handles {
        let (w, outs) = h.join().unwrap();
        for out in outs {
            if out.deadline_at.is_some() {
                capped = true;
            }
            if out.stuck {
                e1_stuck = true;
            } else if !out.status.success() {
                // the worker died: the scenario it was running is the suspect
                let at = out.last_started.unwrap_or(w);
                aborted.push((at, format!("worker {w} ended with {:?}; stderr tail: {}", out.status, out.stderr.chars().rev().take(300).collect::<String>().chars().rev().collect::<String>())));
            }
            reports.extend(out.reports);
        }
    }
    reports.sort_by_key(|r| r.i);

    // Determinism proof: re-run a sample of scenarios in one fresh process with another stride and compare digests.
    let sample_idx: Vec<u64> = reports.iter().filter(|r| r.skipped.is_none()).map(|r| r.i).filter(|i| i % 61 == 7).take(if thorough { 60 } else { 24 }).collect();
    let mut recheck_mismatch = vec![];
    let mut rechecked = 0u64;
    {
        let hs: Vec<_> = sample_idx
            .iter()
            .map(|&i| {
                let c = spawn_worker(seed, &tier_name, i, u64::MAX / 2, i + 1, 0);
                std::thread::spawn(move || (i, collect(c, i, 1, 600)))
            })
            .collect();
        for h in hs {
            let (i, out) = h.join().unwrap();
            let orig = reports.iter().find(|r| r.i == i).unwrap();
            match out.reports.first() {
                Some(r) if r.digests == orig.digests && r.orders == orig.orders && r.steps == orig.steps => rechecked += 1,
                Some(_) => recheck_mismatch.push(i),
                None => recheck_mismatch.push(i),
            }
        }
    }
    // (judged at the end: a tree that keeps state between calls in one process makes histories differ too)

    // E2 cross-check: the same scenarios through the shipped binary, real pipes and a stand-in prover.
    // If the code under test starts threads of its own, E1 cannot own the schedule: its findings are dropped and E2 carries the check.
    // (workers that keep dying are the same situation: the engine cannot host this tree)
    let dying = aborted.len() >= 8;
    let inapplicable = e1_stuck || dying || reports.iter().flat_map(|r| r.violations.iter()).any(|v| v.violation.class == "E1-inapplicable");
    if inapplicable {
        println!("NOTE: the tree under test {}; E1 results are discarded and the E2 engine decides (more cases)", if e1_stuck { "kept simulator workers busy in real time long after the wall cap (it sleeps or spins outside the simulator's control)" } else if dying { "made the in-process workers die again and again (it does something the in-process engine cannot host, e.g. real threads touching simulated pipes)" } else { "reaches the prover seams from threads the in-process simulator does not own (or keeps thread-local state that collides when simulated threads share one OS thread, or prints to stdout around the hooked macros)" });
        for r in reports.iter_mut() {
            r.violations.clear();
        }
        exec::REFERENCE_VIA_BINARY.store(true, std::sync::atomic::Ordering::SeqCst);
    }
    let e2_only = inapplicable || e2_only_requested;
    let xn = args.u64("cross", match (e2_only, thorough) { (true, true) => 4000, (true, false) => 400, (false, true) => 400, (false, false) => 48 });
    let (xsum, xviol, xdisagree) = if xn > 0 { c10x::campaign(seed, xn, thorough, (workers as usize).min(12), e2_only) } else { Default::default() };
    if let Some(f) = args.get("dump-digests") {
        // for the determinism study: everything that identifies the histories of this run, independent of worker count
        let m: BTreeMap<String, (Vec<String>, Vec<String>, u64)> = reports.iter().map(|r| (r.i.to_string(), (r.digests.clone(), r.orders.clone(), r.steps))).collect();
        std::fs::write(f, serde_json::to_string(&m).unwrap()).unwrap();
    }

    // Aggregate.
    let mut agg = Agg::default();
    for r in &reports {
        agg.add(r);
    }

    // Violations: minimise, write replay, confirm in a fresh process.
    let known = load_known();
    let mut scratch = Scratch::new("parent");
    let mut new_violations = 0u64;
    let mut known_hits: BTreeSet<String> = BTreeSet::new();
    let mut reported_classes: BTreeSet<String> = BTreeSet::new();
    let replays_dir = verif_home().join("replays");
    let _ = std::fs::create_dir_all(&replays_dir);
    let mut all: Vec<&Replay> = reports.iter().flat_map(|r| r.violations.iter()).collect();
    // start from the smallest failing execution: short schedule, few faults, few instances
    let sched_len = |r: &Replay| match &r.sched {
        anthem_simrt::sched::SchedSpec::Replay { decisions } => decisions.len(),
        _ => 0,
    };
    all.sort_by_key(|r| (sched_len(r) / 2000, r.case.plan.faults.len(), r.case.instances, r.index, r.k));
    let mut raw_e1 = 0u64;
    let mut unconfirmed = 0u64;
    let mut tried_per_class: BTreeMap<String, u32> = BTreeMap::new();
    for r in all {
        if let Some(k) = known.iter().find(|k| k.property == "C10" && k.class == r.violation.class && r.violation.detail.contains(&k.detail_contains)) {
            known_hits.insert(format!("KNOWN-FINDING: property=C10 {}", k.what));
            continue;
        }
        raw_e1 += 1;
        // one minimised report per violation class is enough; count the rest
        if reported_classes.contains(&r.violation.class) || reported_classes.len() >= 3 {
            continue;
        }
        let tried = tried_per_class.entry(r.violation.class.clone()).or_insert(0);
        if *tried >= 6 {
            continue;
        }
        *tried += 1;
        // A violation must first reproduce on its own in a fresh process. One that does not is an artefact of what the
        // worker process ran before (a tree that keeps state between calls), not something a real anthem run can show.
        let alone = c10::replay_in_fresh_process(r, &mut scratch);
        if !alone.0.iter().any(|v| v.class == r.violation.class) {
            unconfirmed += 1;
            continue;
        }
        let min = c10::minimise(r.clone(), &mut scratch, if thorough { 240 } else { 45 });
        let path = replays_dir.join(format!("C10-{}-{}-{}-{}.json", seed, r.index, r.k, min.violation.class));
        std::fs::write(&path, serde_json::to_string_pretty(&min).unwrap()).unwrap();
        let confirm = Command::new(std::env::current_exe().unwrap()).args(["c10-replay", path.to_str().unwrap(), "--quiet"]).output().unwrap();
        let confirmed = confirm.status.code() == Some(1);
        if !confirmed {
            // fall back to the unminimised execution, which did reproduce
            std::fs::write(&path, serde_json::to_string_pretty(r).unwrap()).unwrap();
        }
        let shown = if confirmed { &min } else { r };
        reported_classes.insert(r.violation.class.clone());
        new_violations += 1;
        println!("violation class={} scenario={} execution={} confirmed_by_fresh_replay=true{}", shown.violation.class, r.index, r.k, if confirmed { "" } else { " (minimised form did not replay; unminimised execution kept)" });
        println!("  {}", shown.violation.detail);
        println!("  {}", shown.note);
        println!("VIOLATION property=C10 replay={}", path.display());
    }
    if raw_e1 > 0 {
        println!("note: {raw_e1} execution(s) violated an invariant; one minimised report per violation class (at most three classes) is given");
        if unconfirmed > 0 {
            println!("note: {unconfirmed} recorded violation(s) did not reproduce on their own in a fresh process: the tree under test carries state from one call to the next inside a process; they are not reported");
        }
    }
    let mut x_classes: BTreeSet<String> = BTreeSet::new();
    for x in xviol.iter() {
        if let Some(k) = known.iter().find(|k| k.property == "C10" && k.class == x.violation.class && x.violation.detail.contains(&k.detail_contains)) {
            known_hits.insert(format!("KNOWN-FINDING: property=C10 {}", k.what));
            continue;
        }
        new_violations += 1;
        if !x_classes.insert(x.violation.class.clone()) || x_classes.len() > 3 {
            continue;
        }
        let path = replays_dir.join(format!("C10-{seed}-x{}-{}.json", x.cross_case, x.violation.class));
        std::fs::write(&path, serde_json::to_string_pretty(x).unwrap()).unwrap();
        println!("violation (E2 cross-check) class={} case={}\n  {}", x.violation.class, x.cross_case, x.violation.detail);
        println!("VIOLATION property=C10 replay={}", path.display());
    }
    // A worker that died (abort, stack overflow, double panic) is not by itself a property violation: the in-process engine
    // shares one OS thread among all simulated threads, so thread-local state of the tree under test can collide in ways
    // real threads cannot. The scenario is therefore run through the shipped binary (E2); only what shows there is reported.
    let mut abort_artefacts = 0u64;
    if !aborted.is_empty() {
        exec::REFERENCE_VIA_BINARY.store(true, std::sync::atomic::Ordering::SeqCst);
        let tasks = c10::tasks();
        let tier = Tier { thorough };
        let bins = e2::Binaries::locate();
        let mut x_reported = 0;
        for (at, why) in aborted.iter().take(12) {
            let (mut case, prep, skip) = c10::draw_case(seed, *at, &tasks, &tier, &mut scratch);
            if skip.is_some() {
                abort_artefacts += 1;
                continue;
            }
            let prep = prep.unwrap();
            case.plan.faults.retain(|_, f| matches!(f, anthem_simrt::plan::Fault::EarlyExit { .. }));
            let mut seen: Option<oracle::Violation> = None;
            for attempt in 0..3u64 {
                if let Ok(x) = c10x::run_case(&bins, &case, &prep.reference, &prep.in_dir, &mut scratch, anthem_simrt::plan::mix2(seed, *at + attempt), false, false) {
                    if let Some(v) = x.violations.first() {
                        seen = Some(v.clone());
                        break;
                    }
                }
            }
            match seen {
                Some(v) if x_reported < 2 => {
                    x_reported += 1;
                    new_violations += 1;
                    let xr = c10x::XReplay { property: "C10".into(), engine: "E2".into(), seed, cross_case: *at, slow_case: false, large_case: false, case: case.clone(), violation: v.clone(), note: format!("the in-process worker died in this scenario ({why}); the same case through the shipped binary shows the violation") };
                    let path = replays_dir.join(format!("C10-{seed}-a{at}-{}.json", v.class));
                    std::fs::write(&path, serde_json::to_string_pretty(&xr).unwrap()).unwrap();
                    println!("violation (E2 run of a scenario in which the in-process worker died) class={} scenario={at}\n  {}", v.class, v.detail);
                    println!("VIOLATION property=C10 replay={}", path.display());
                }
                Some(_) => new_violations += 1,
                None => abort_artefacts += 1,
            }
        }
        if abort_artefacts > 0 {
            println!("note: the in-process worker died in {} scenario(s) whose run through the shipped binary is clean (first: {}); not reported as violations", abort_artefacts, aborted[0].1.chars().take(160).collect::<String>());
        }
    }
    for k in &known_hits {
        println!("{k}");
    }

    let wall = t0.elapsed().as_secs_f64();
    let evidence_path = args.get("evidence").map(PathBuf::from).unwrap_or_else(|| verif_home().join("evidence/C10.json"));
    let mut ev = agg.evidence(seed, &tier_name, wall, new_violations, rechecked, capped, workers, scenarios);
    ev["coverage"]["e2_cross_check"] = serde_json::to_value(&xsum).unwrap();
    if let Some(p) = evidence_path.parent() {
        let _ = std::fs::create_dir_all(p);
    }
    std::fs::write(&evidence_path, serde_json::to_string_pretty(&ev).unwrap()).unwrap();
    println!(
        "C10: {} scenarios ({} skipped), {} executions, {} distinct event-log digests, {} distinct completion orders, {:.0} executions/s, determinism re-checked on {} scenarios, {} violation(s); evidence {}",
        agg.scenarios, agg.skipped, agg.execs, agg.distinct_digests.len(), agg.distinct_orders.len(), agg.execs as f64 / wall.max(0.001), rechecked, new_violations, evidence_path.display()
    );
    ev["coverage"]["e1_discarded_code_under_test_owns_threads"] = serde_json::json!(inapplicable);
    if e2_only {
        // the evidence schema wants at least one evaluation and two distinct cases: in E2-only mode those are the E2 runs
        ev["coverage"]["evaluations"] = serde_json::json!(xsum.runs.max(1));
        ev["coverage"]["distinct_nontrivial"] = serde_json::json!(xsum.runs.max(2));
        ev["coverage"]["rule"] = serde_json::json!("E2-only mode: one evaluation = one run of the shipped binary with the stand-in prover under a seeded outcome plan and release order (the in-process engine was not applicable to this tree); distinct = distinct seeded cases");
        std::fs::write(&evidence_path, serde_json::to_string_pretty(&ev).unwrap()).unwrap();
    }
    if !recheck_mismatch.is_empty() {
        if new_violations > 0 {
            println!("note: scenarios {recheck_mismatch:?} gave different histories when re-run in a fresh process (the tree under test keeps state between calls in one process)");
        } else {
            harness_error(&format!("determinism check failed: scenarios {recheck_mismatch:?} gave different event-log digests when re-run in a fresh process"));
        }
    }
    if raw_e1 > 0 && reported_classes.is_empty() && new_violations == 0 {
        harness_error(&format!("{raw_e1} violation(s) were recorded but none reproduced in a fresh process"));
    }
    if !xdisagree.is_empty() {
        // Both oracles pass but the two engines print different things. On a tree whose output legitimately
        // depends on the completion order this is expected; it must not hide violations found above.
        for d in xdisagree.iter().take(3) {
            println!("note: {d}");
        }
        if new_violations == 0 {
            harness_error(&format!("E1/E2 disagreement on {} case(s) and no violation found: either the simulated seams misrepresent the real ones or the tree's output depends on the completion order in a way the oracle does not constrain", xdisagree.len()));
        }
    }
    if agg.execs == 0 && xsum.runs == 0 {
        harness_error("no execution ran");
    }
    drop(scratch);
    std::process::exit(if new_violations > 0 { 1 } else { 0 });
}

#[derive(Default)]
struct Agg {
    scenarios: u64,
    skipped: u64,
    skipped_why: BTreeMap<String, u64>,
    execs: u64,
    execs_fault_free: u64,
    execs_faulty: u64,
    steps: u64,
    switches: u64,
    sim_ms: u64,
    distinct_digests: BTreeSet<(u64, String)>,
    distinct_nontrivial: BTreeSet<(u64, String)>,
    distinct_orders: BTreeSet<(u64, String)>,
    probes: BTreeMap<String, u64>,
    faults_configured: BTreeMap<String, u64>,
    faults_fired: BTreeMap<String, u64>,
    outcomes: BTreeMap<String, u64>,
    by_problems: BTreeMap<usize, u64>,
    by_instances: BTreeMap<usize, u64>,
    by_mix: BTreeMap<String, u64>,
    by_task: BTreeMap<String, u64>,
    samples: Vec<serde_json::Value>,
}

impl Agg {
    fn add(&mut self, r: &ScenarioReport) {
        self.scenarios += 1;
        if let Some(why) = &r.skipped {
            self.skipped += 1;
            *self.skipped_why.entry(format!("{}: {}", r.task, why.chars().take(120).collect::<String>())).or_insert(0) += 1;
            return;
        }
        self.execs += r.execs;
        if r.fault_free {
            self.execs_fault_free += r.execs;
        } else {
            self.execs_faulty += r.execs;
        }
        self.steps += r.steps;
        self.switches += r.switches;
        self.sim_ms += r.sim_ms;
        for d in &r.digests {
            self.distinct_digests.insert((r.i, d.clone()));
            if r.problems >= 1 {
                self.distinct_nontrivial.insert((r.i, d.clone()));
            }
        }
        for o in &r.orders {
            self.distinct_orders.insert((r.i, o.clone()));
        }
        for (k, v) in &r.probes {
            *self.probes.entry(k.clone()).or_insert(0) += v;
        }
        for (k, v) in &r.faults_configured {
            *self.faults_configured.entry(k.clone()).or_insert(0) += v;
        }
        for (k, v) in &r.faults_fired {
            *self.faults_fired.entry(k.clone()).or_insert(0) += v;
        }
        for (k, v) in &r.outcomes {
            *self.outcomes.entry(k.clone()).or_insert(0) += v;
        }
        *self.by_problems.entry(r.problems).or_insert(0) += r.execs;
        *self.by_instances.entry(r.instances).or_insert(0) += r.execs;
        *self.by_mix.entry(r.mix.clone()).or_insert(0) += r.execs;
        *self.by_task.entry(r.task.clone()).or_insert(0) += r.execs;
        if let Some(s) = &r.sample {
            let want = (self.samples.len() < 2 && r.problems >= 1) || (self.samples.len() < 6 && r.problems >= 3 && r.instances >= 2 && !r.fault_free);
            if want {
                self.samples.push(s.clone());
            }
        }
    }

    #[allow(clippy::too_many_arguments)]
    fn evidence(&self, seed: u64, tier: &str, wall: f64, violations: u64, rechecked: u64, capped: bool, workers: u64, scenarios: u64) -> serde_json::Value {
        let mut fault_table = serde_json::Map::new();
        for k in c10::fault_kinds() {
            fault_table.insert(
                k.to_string(),
                serde_json::json!({"scenarios_configured": self.faults_configured.get(k).cloned().unwrap_or(0), "times_fired": self.faults_fired.get(k).cloned().unwrap_or(0)}),
            );
        }
        serde_json::json!({
            "property_id": "C10",
            "tier": tier,
            "seed": seed,
            "level": "exploration",
            "wall_s": wall,
            "violations": violations,
            "coverage": {
                "evaluations": self.execs,
                "distinct_nontrivial": self.distinct_nontrivial.len(),
                "rule": "one evaluation = one simulated execution of the real anthem::main() (verify with proof search) under one scenario (task, flags, prover-outcome plan, fault script, pipe/clock perturbations) and one schedule; scenario i is drawn from mix(seed, i), execution k of it from mix(seed, i, k). Distinct = distinct (scenario, event-log digest) pairs, the digest folding every simulated syscall, print and clock read in order; non-trivial = the execution started at least one prover.",
                "samples": self.samples,
                "scenarios_requested": scenarios,
                "scenarios_run": self.scenarios,
                "scenarios_skipped_reference_failed": self.skipped,
                "skipped_reasons": self.skipped_why,
                "stopped_by_wall_cap": capped,
                "workers": workers,
                "executions_fault_free": self.execs_fault_free,
                "executions_with_fault_script": self.execs_faulty,
                "executions_per_hour": (self.execs as f64 / wall.max(0.001) * 3600.0) as u64,
                "scenarios_per_hour": (self.scenarios as f64 / wall.max(0.001) * 3600.0) as u64,
                "simulated_ms_covered": self.sim_ms,
                "scheduler_steps": self.steps,
                "context_switches": self.switches,
                "distinct_event_log_digests": self.distinct_digests.len(),
                "distinct_completion_orders": self.distinct_orders.len(),
                "faults": fault_table,
                "prover_outcome_classes_delivered": self.outcomes,
                "reach_probes": self.probes,
                "executions_by_problem_count": self.by_problems.iter().map(|(k, v)| (k.to_string(), *v)).collect::<BTreeMap<_, _>>(),
                "executions_by_prover_instances": self.by_instances.iter().map(|(k, v)| (k.to_string(), *v)).collect::<BTreeMap<_, _>>(),
                "executions_by_mix": self.by_mix,
                "executions_by_task": self.by_task,
                "determinism_recheck": {"scenarios_rerun_in_fresh_process": rechecked, "mismatches": 0},
                "real_vs_stub": {
                    "real (compiled from /repo working tree)": ["argument parsing (clap)", "Files::sort", "parsing, translation, simplification, task decomposition", "Problem Display / to_file", "Verify arm and success flag", "Prover::prove_all", "Vampire::prove", "TryFrom<Output>", "STATUS regex / FromStr for Status"],
                    "real source on simulated primitives": ["threadpool 1.8.1 (ported to shuttle sync/thread by sim/tpool_shuttle/port.py)"],
                    "stub": ["std::sync::mpsc (shuttle model)", "process spawn / stdin pipe / exit status (anthem_simrt::process)", "vampire (scripted child thread)", "Instant (logical clock)", "num_cpus", "stdout (captured)", "argv (injected)"],
                    "real, uncontrolled": ["file system under a scratch directory", "hash seeds (not on C10's path)"]
                }
            },
            "assumptions": [
                "The simulated process API mirrors std::process for the calls anthem makes (spawn, piped stdin write, drop, wait_with_output); E2 (envsim c10x) cross-checks this against the shipped binary and the kernel's pipes.",
                "Prover outputs are generated only from classes on which the property statement is unambiguous (see DESIGN.md section 3.1).",
                "Sampling, not enumeration: a clean batch is evidence, not proof."
            ]
        })
    }
}

fn c10_try(args: &Args) {
    let path = args.pos.first().cloned().unwrap_or_else(|| harness_error("usage: vcheck c10-try FILE"));
    let r: Replay = serde_json::from_str(&std::fs::read_to_string(&path).unwrap_or_else(|e| harness_error(&format!("{path}: {e}")))).unwrap_or_else(|e| harness_error(&format!("{path}: {e}")));
    let mut scratch = Scratch::new("try");
    let mut proto = Protocol::take_over_stdout();
    let (mut violations, digest, run, facts) = c10::replay_with_facts(&r, &mut scratch, false);
    if proto.stray_bytes() > 0 {
        violations = vec![oracle::Violation { class: "E1-inapplicable".into(), detail: "the tree under test writes to stdout by other means than the hooked print macros".into() }];
    }
    let out = c10::TryOut { tasks: run.result.trace.tasks_seen, violations, digest, decisions: run.result.trace.decisions.clone(), vs_calm: run.result.trace.vs_calm.clone(), stdout: String::from_utf8_lossy(&run.result.sim.stdout).into_owned(), verdict: facts.verdict };
    proto.send(&serde_json::to_string(&out).unwrap());
}

fn c10_replay(args: &Args) {
    let path = match args.pos.first() {
        Some(p) => p.clone(),
        None => harness_error("usage: vcheck c10-replay FILE [--log] [--quiet]"),
    };
    let text = std::fs::read_to_string(&path).unwrap_or_else(|e| harness_error(&format!("{path}: {e}")));
    let quiet = args.get("quiet").is_some();
    if let Ok(x) = serde_json::from_str::<c10x::XReplay>(&text) {
        // a violation seen by the E2 engine: real processes; up to three attempts, since the timing inside a step is the OS's
        for _ in 0..3 {
            match c10x::replay(&x) {
                Ok(vs) if vs.iter().any(|v| v.class == x.violation.class) => {
                    if !quiet {
                        println!("replayed {path} (E2: shipped binary, stand-in prover): class={} occurs again", x.violation.class);
                        println!("VIOLATION property=C10 replay={path}");
                    }
                    std::process::exit(1);
                }
                Ok(_) => {}
                Err(e) => harness_error(&format!("E2 replay: {e}")),
            }
        }
        if !quiet {
            println!("replayed {path}: recorded violation class {} did not occur in three attempts", x.violation.class);
        }
        std::process::exit(0);
    }
    let r: Replay = serde_json::from_str(&text).unwrap_or_else(|e| harness_error(&format!("{path}: {e}")));
    let mut scratch = Scratch::new("replay");
    let (vs, digest, run) = c10::replay(&r, &mut scratch, args.get("log").is_some());
    if args.get("log").is_some() {
        for e in &run.result.sim.log {
            println!("{:6} {}", e.seq, e.what);
        }
        println!("--- anthem stdout ---\n{}", String::from_utf8_lossy(&run.result.sim.stdout));
    }
    let same = vs.iter().find(|v| v.class == r.violation.class);
    match same {
        Some(v) => {
            if !quiet {
                println!("replayed {}: class={} digest={} (recorded {}){}", path, v.class, digest, r.digest, if digest == r.digest { " identical history" } else { " DIFFERENT history" });
                println!("  {}", v.detail);
                println!("VIOLATION property=C10 replay={path}");
            }
            std::process::exit(1);
        }
        None => {
            if !quiet {
                println!("replayed {}: recorded violation class {} did not occur (violations now: {:?})", path, r.violation.class, vs.iter().map(|v| &v.class).collect::<Vec<_>>());
            }
            std::process::exit(0);
        }
    }
}
