//! E2 cross-check for C10: the shipped binary, real threads, real pipes, real process exit statuses;
//! a stand-in `vampire` on PATH that a coordinator drives (what it reads, what it prints, when it exits).
//! Real threads and processes run, but the choice of which prover finishes next is the coordinator's, from the seed.
use crate::e2::Binaries;
use crate::exec::{self, Scratch};
use crate::gen::{self, Case, Tier};
use crate::oracle::Violation;
use anthem_simrt::plan::{Exit, Fault, Rng, content_key, mix2};
use std::collections::BTreeMap;
use std::io::{BufRead, BufReader, Read, Write};
use std::os::unix::net::{UnixListener, UnixStream};
use std::path::Path;
use std::process::{Command, Stdio};
use std::time::{Duration, Instant};

pub struct XResult {
    pub violations: Vec<Violation>,
    pub stdout: Vec<u8>,
    pub connections: usize,
    pub grace_used: u64,
    pub order: Vec<i64>,
    pub verdict: Option<bool>,
    pub expected: bool,
    pub slow: bool,
    pub spawn_faults: u64,
    pub write_faults: u64,
    pub short_writes: u64,
    pub split_deliveries: u64,
    pub lazy_readers: u64,
}

struct Standin {
    w: UnixStream,
    r: BufReader<UnixStream>,
    ordinal: usize,
    got: Option<(Vec<u8>, bool)>,
    released: bool,
    early: Option<(Vec<u8>, Exit)>,
    /// When the prover had read its input (it "runs" from here on).
    /// The connection broke before the coordinator let the prover finish: somebody (anthem) killed it.
    died: bool,
    ready_at: Option<Instant>,
    /// How long this prover takes (real milliseconds; always below the time limit given with -t).
    takes_ms: u64,
}

fn exit_code(e: Exit) -> i32 {
    match e {
        Exit::Code(c) => c,
        Exit::Signal(s) => -s,
    }
}

/// Run one case through the shipped binary. Only fault kinds that exist outside the simulator are honoured:
/// missing executable and early exit; others are ignored by this engine.
pub fn run_case(bins: &Binaries, case: &Case, reference: &[(String, Vec<u8>)], in_dir: &Path, scratch: &mut Scratch, seed: u64, slow_case: bool, large_case: bool) -> Result<XResult, String> {
    let sock_dir = scratch.fresh_dir("sock");
    let sock = sock_dir.join("c.sock");
    let listener = UnixListener::bind(&sock).map_err(|e| format!("bind {}: {e}", sock.display()))?;
    listener.set_nonblocking(true).map_err(|e| e.to_string())?;

    let mut args = vec!["verify".to_string()];
    args.extend(case.options.iter().cloned());
    args.extend(case.flags.iter().cloned());
    args.extend(case.run_flags.iter().filter(|f| *f != "--no-timing").cloned());
    args.push("--no-timing".into());
    let out_dir = if case.save_problems {
        let d = scratch.fresh_dir("xout");
        if case.stale_out {
            for (n, c) in reference {
                let mut stale = b"% left behind by an earlier task\n".to_vec();
                stale.extend_from_slice(c);
                stale.extend_from_slice(b"tff(stale_tail, axiom, $false).\n");
                let _ = std::fs::write(d.join(n), stale);
            }
        }
        args.push("--save-problems".into());
        args.push(d.to_string_lossy().into_owned());
        Some(d)
    } else {
        None
    };
    args.extend(case.file_args.iter().map(|f| in_dir.join(f).to_string_lossy().into_owned()));

    let path = if case.plan.spawn_all_enoent { "/nonexistent-bin".to_string() } else { format!("{}:/nonexistent-bin", bins.standin_dir.display()) };
    let mut cmd = Command::new(&bins.anthem);
    cmd.args(&args).current_dir(in_dir).env_clear().env("PATH", path).env("VERIF_COORD_SOCK", &sock);
    // simulated CPU count for -n 0 / -m 0
    cmd.env("LD_PRELOAD", &bins.preload).env("VERIF_ENV_CPUS", case.cpus.to_string());
    // faults inside the anthem process itself (interposed libc calls): one spawn that fails, one write to a prover's
    // stdin that fails, short writes
    let env_log = sock_dir.join("env.log");
    cmd.env("VERIF_ENV_LOG", &env_log);
    let mut rng_f = Rng::new(mix2(seed, 0xfa17));
    for f in case.plan.faults.values() {
        match f {
            Fault::SpawnErr { errno } if !case.plan.spawn_all_enoent => {
                cmd.env("VERIF_ENV_SPAWN_FAIL_AT", (1 + rng_f.below(reference.len().max(1) as u64)).to_string()).env("VERIF_ENV_SPAWN_ERRNO", errno.to_string());
            }
            Fault::WriteErr { errno, .. } => {
                // some write in the middle of some hand-over (a problem is rendered in a few hundred writes)
                cmd.env("VERIF_ENV_WRITE_FAIL_AT", (1 + rng_f.below(150 * reference.len().max(1) as u64)).to_string()).env("VERIF_ENV_WRITE_ERRNO", errno.to_string());
            }
            _ => {}
        }
    }
    if case.plan.short_write_pct > 0 {
        cmd.env("VERIF_ENV_WRITE_SHORT_EVERY", (100 / case.plan.short_write_pct as u64).max(2).to_string());
    }
    cmd.stdin(Stdio::null()).stdout(Stdio::piped()).stderr(Stdio::piped());
    let mut child = cmd.spawn().map_err(|e| format!("spawn anthem: {e}"))?;
    let mut anthem_out = child.stdout.take().unwrap();
    let out_thread = std::thread::spawn(move || {
        let mut v = vec![];
        let _ = anthem_out.read_to_end(&mut v);
        v
    });
    let mut anthem_err = child.stderr.take().unwrap();
    let err_thread = std::thread::spawn(move || {
        let mut v = vec![];
        let _ = anthem_err.read_to_end(&mut v);
        v
    });

    let mut rng = Rng::new(mix2(seed, 0xc10e2));
    // "slow but within its limit" provers (real time): only with -t 1, so that a case costs seconds, not minutes
    let t_limit: u64 = case.run_flags.iter().position(|f| f == "-t").and_then(|i| case.run_flags.get(i + 1)).and_then(|v| v.parse().ok()).unwrap_or(60);
    let slow = slow_case && t_limit == 1;
    let (slow_lo, slow_hi) = (450u64, 800u64);
    let mut standins: Vec<Standin> = vec![];
    let mut released = 0usize;
    let mut order: Vec<i64> = vec![];
    let mut grace_used = 0u64;
    let mut split_deliveries = 0u64;
    let mut lazy_readers = 0u64;
    let mut last_progress = Instant::now();
    let total = reference.len();
    let t0 = Instant::now();
    let mut exited = None;
    let mut exit_seen_at: Option<Instant> = None;
    loop {
        let mut progressed = false;
        // new connections
        while let Ok((s, _)) = listener.accept() {
            s.set_nonblocking(false).ok();
            s.set_read_timeout(Some(Duration::from_secs(20))).ok();
            let w = s.try_clone().map_err(|e| e.to_string())?;
            let mut r = BufReader::new(s);
            let mut line = String::new();
            r.read_line(&mut line).map_err(|e| format!("hello: {e}"))?;
            let words: Vec<&str> = line.split_whitespace().collect();
            let nargs: usize = words.get(2).and_then(|w| w.parse().ok()).unwrap_or(0);
            for _ in 0..nargs {
                let mut a = String::new();
                r.read_line(&mut a).ok();
            }
            let ordinal = standins.len();
            let early = match case.plan.faults.get(&ordinal) {
                Some(Fault::EarlyExit { after, stdout, exit }) => Some((*after, stdout.clone(), *exit)),
                _ => None,
            };
            let takes_ms = if slow { slow_lo + rng.below(slow_hi - slow_lo + 1) } else { 0 };
            let mut st = Standin { w, r, ordinal, got: None, released: false, early: early.as_ref().map(|e| (e.1.clone(), e.2)), died: false, ready_at: None, takes_ms };
            // "large problems" cases: some provers are slow to start reading their input (real time), and provers are
            // released as soon as they are ready instead of when all instances wait - so a worker can come back for the
            // next problem while a sibling prover has not read its input yet
            let lazy_ms = if large_case && rng.pct(45) { 120 + rng.below(260) } else { 0 };
            if lazy_ms > 0 {
                lazy_readers += 1;
            }
            let sent = match &early {
                Some((after, _, _)) => writeln!(st.w, "READ {after}"),
                None if lazy_ms > 0 => writeln!(st.w, "READ ALL {lazy_ms}"),
                None => writeln!(st.w, "READ ALL"),
            };
            if sent.is_err() || st.w.flush().is_err() {
                st.died = true;
                st.released = true;
                st.got = Some((vec![], false));
            }
            standins.push(st);
            progressed = true;
        }
        // GOT messages (blocking read per stand-in that has none yet; each is in its read phase)
        for st in standins.iter_mut().filter(|s| s.got.is_none()) {
            st.r.get_ref().set_read_timeout(Some(Duration::from_millis(20))).ok();
            let mut line = String::new();
            match st.r.read_line(&mut line) {
                Ok(n) if n > 0 => {
                    let words: Vec<&str> = line.split_whitespace().collect();
                    let n: usize = words.get(1).and_then(|w| w.parse().ok()).unwrap_or(0);
                    let eof = words.get(2) == Some(&"1");
                    st.r.get_ref().set_read_timeout(Some(Duration::from_secs(20))).ok();
                    let mut buf = vec![0u8; n];
                    if st.r.read_exact(&mut buf).is_err() {
                        st.died = true;
                        st.released = true;
                        st.got = Some((vec![], false));
                    } else {
                        st.got = Some((buf, eof));
                        st.ready_at = Some(Instant::now());
                    }
                    progressed = true;
                }
                Ok(_) => {
                    // EOF before any report: the prover process is gone
                    st.died = true;
                    st.released = true;
                    st.got = Some((vec![], false));
                    progressed = true;
                }
                Err(_) => {}
            }
        }
        // release one prover when the set of waiting provers is quiescent
        let all_waiting = standins.iter().filter(|s| s.got.is_some() && !s.released).count();
        // a slow prover cannot be released before it has "run" for its duration
        let waiting: Vec<usize> = standins
            .iter()
            .enumerate()
            .filter(|(_, s)| s.got.is_some() && !s.released && s.ready_at.map(|t| t.elapsed() >= Duration::from_millis(s.takes_ms)).unwrap_or(false))
            .map(|(i, _)| i)
            .collect();
        if all_waiting > waiting.len() {
            // time is passing for a slow prover: that is progress, not a stall
            last_progress = Instant::now();
        }
        let remaining = total.saturating_sub(released);
        let expect = case.instances.max(1).min(remaining.max(1));
        let quiescent = all_waiting >= expect;
        let grace = !waiting.is_empty() && last_progress.elapsed() > Duration::from_millis(1500);
        if !waiting.is_empty() && (quiescent || grace || large_case) {
            if !quiescent && !large_case {
                grace_used += 1;
            }
            let pick = waiting[rng.below(waiting.len() as u64) as usize];
            let st = &mut standins[pick];
            let (bytes, eof) = st.got.clone().unwrap();
            let (out, err, code) = match (&st.early, eof) {
                (Some((o, e)), false) => (o.clone(), vec![], exit_code(*e)),
                _ => {
                    let o = case.plan.outcomes.get(&content_key(&bytes)).cloned().unwrap_or_else(|| case.plan.foreign.clone());
                    (o.stdout, o.stderr, exit_code(o.exit))
                }
            };
            // delivery: now and then the prover flushes somewhere inside its output (often inside the status line)
            // and the rest arrives a little later
            let (split, pause_ms) = if !out.is_empty() && rng.pct(30) {
                let at = match out.windows(10).position(|w| w == b"SZS status") {
                    Some(p) if rng.pct(70) => (p + 1 + rng.below(24) as usize).min(out.len()),
                    _ => rng.below(out.len() as u64 + 1) as usize,
                };
                (at, 20 + rng.below(200))
            } else {
                (out.len(), 0)
            };
            if split < out.len() {
                split_deliveries += 1;
            }
            let sent = write!(st.w, "FINISH {code} {} {} {split} {pause_ms}\n", out.len(), err.len()).and_then(|_| st.w.write_all(&out)).and_then(|_| st.w.write_all(&err)).and_then(|_| st.w.flush());
            if sent.is_err() {
                st.died = true;
            }
            st.released = true;
            released += 1;
            order.push(reference.iter().position(|(_, b)| *b == bytes).map(|i| i as i64).unwrap_or(-1));
            progressed = true;
        }
        if progressed {
            last_progress = Instant::now();
        }
        if let Some(status) = child.try_wait().map_err(|e| e.to_string())? {
            // anthem does not wait for a prover whose hand-over failed: such a prover may still be starting up when
            // anthem is already gone. Give stragglers a moment to report in before counting.
            let seen = *exit_seen_at.get_or_insert_with(Instant::now);
            let complete = standins.len() >= total || case.plan.spawn_all_enoent || seen.elapsed() > Duration::from_millis(1500);
            if standins.iter().all(|s| s.released) && complete {
                exited = Some(status);
                break;
            }
        }
        if last_progress.elapsed() > Duration::from_secs(30) || t0.elapsed() > Duration::from_secs(300) {
            let _ = child.kill();
            let _ = child.wait();
            break;
        }
        if !progressed {
            std::thread::sleep(Duration::from_millis(1));
        }
    }
    let stdout = out_thread.join().unwrap_or_default();
    let stderr = err_thread.join().unwrap_or_default();
    let saved = out_dir.as_ref().map(|d| exec::read_problem_files(d));

    // what the interposer did inside the anthem process
    let anthem_pid = child.id();
    let (mut spawn_faults, mut write_faults, mut short_writes) = (0u64, 0u64, 0u64);
    if let Ok(text) = std::fs::read_to_string(&env_log) {
        for line in text.lines().filter(|l| l.starts_with(&format!("pid={anthem_pid} "))) {
            for kv in line.split_whitespace() {
                match kv.split_once('=') {
                    Some(("spawnfaults", v)) => spawn_faults += v.parse::<u64>().unwrap_or(0),
                    Some(("writefaults", v)) => write_faults += v.parse::<u64>().unwrap_or(0),
                    Some(("shortwrites", v)) => short_writes += v.parse::<u64>().unwrap_or(0),
                    _ => {}
                }
            }
        }
    }

    // ---- the same oracle as E1, on what the real processes did
    let mut v = vec![];
    let mk = |c: &str, d: String| Violation { class: c.to_string(), detail: d };
    let text = String::from_utf8_lossy(&stdout).into_owned();
    let lines: Vec<&str> = text.lines().collect();
    match exited {
        None => v.push(mk("X-no-progress", format!("anthem made no progress for 30 s ({} prover(s) connected, {} released); stderr: {}", standins.len(), released, String::from_utf8_lossy(&stderr)))),
        // (a non-zero exit status after a verdict is not constrained by the statement; dying without a verdict is)
        Some(st) if !st.success() && (st.code().is_none() || !lines.iter().any(|l| l.starts_with("> Success!") || l.starts_with("> Failure!"))) => {
            v.push(mk("X-exit", format!("anthem ended with {st:?} without a verdict; stderr: {}", String::from_utf8_lossy(&stderr).chars().take(300).collect::<String>())))
        }
        _ => {}
    }
    // (a prover whose input could not be written may be killed at once - before it even says hello: that run is a
    // failure anyway; one such prover is excused per write fault that fired)
    let mut kill_excuses = write_faults;
    for st in standins.iter().filter(|s| s.died) {
        if kill_excuses > 0 {
            kill_excuses -= 1;
            continue;
        }
        v.push(mk("I6-prover-killed", format!("prover #{} disappeared before the coordinator let it finish: anthem killed it (or closed its pipes) while it was still running within its time limit", st.ordinal)));
    }
    let mut used = vec![0usize; total];
    let mut all_proven = !case.plan.spawn_all_enoent || total == 0;
    if exited.is_some() {
        let connected = standins.len() as u64 + spawn_faults;
        if !case.plan.spawn_all_enoent && !(connected == total as u64 || (connected < total as u64 && connected + kill_excuses >= total as u64)) {
            v.push(mk("I3-attempts", format!("{} prover processes connected for {} emitted problems ({} spawn failure(s) injected)", standins.len(), total, spawn_faults)));
        }
        if spawn_faults > 0 || write_faults > 0 {
            all_proven = false;
        }
        let mut write_excuses = write_faults;
        for st in standins.iter().filter(|s| !s.died) {
            let (bytes, eof) = st.got.clone().unwrap_or_default();
            if st.early.is_some() && !eof {
                all_proven = false;
                continue;
            }
            match reference.iter().enumerate().find(|(i, (_, b))| *b == bytes && used[*i] == 0) {
                Some((i, _)) => {
                    used[i] += 1;
                    let o = case.plan.outcomes.get(&content_key(&bytes));
                    if !o.map(|o| o.proven).unwrap_or(false) {
                        all_proven = false;
                    }
                }
                None if write_excuses > 0 && reference.iter().enumerate().any(|(i, (_, b))| used[i] == 0 && b.starts_with(&bytes) && b.len() > bytes.len()) => {
                    // the hand-over that the injected write error cut short: the prover saw a proper prefix
                    write_excuses -= 1;
                    all_proven = false;
                }
                None => {
                    all_proven = false;
                    if reference.iter().any(|(_, b)| *b == bytes) {
                        v.push(mk("I1-double-handover", format!("prover #{} received a problem that had already been handed over", st.ordinal)));
                    } else {
                        v.push(mk("I2-foreign-handover", format!("prover #{} read {} bytes that are not byte-identical to any problem of --save-problems", st.ordinal, bytes.len())));
                    }
                }
            }
        }
        let early_n = standins.iter().filter(|s| s.early.is_some() && !s.got.as_ref().map(|g| g.1).unwrap_or(false)).count();
        let missing = used.iter().filter(|u| **u == 0).count();
        let excused = early_n as u64 + spawn_faults + write_faults;
        if !case.plan.spawn_all_enoent && missing as u64 > excused {
            v.push(mk("I3-not-handed-over", format!("{missing} problem(s) never reached a prover ({excused} excused by injected faults)")));
        }
        if let Some(saved) = &saved {
            if saved != reference {
                v.push(mk("I4-saved-bytes", "files saved by the proving run differ from the reference emission".into()));
            }
        }
        let verdicts: Vec<bool> = lines.iter().filter_map(|l| if l.starts_with("> Success!") { Some(true) } else if l.starts_with("> Failure!") { Some(false) } else { None }).collect();
        if verdicts.is_empty() {
            v.push(mk("I5-no-verdict", "no verdict line".into()));
        } else if verdicts.iter().any(|s| *s != verdicts[0]) {
            v.push(mk("I5-contradictory-verdicts", "verdict lines that do not agree".into()));
        } else if verdicts[0] != all_proven {
            let s = verdicts[0];
            v.push(mk(if s { "I5-false-success" } else { "I5-false-failure" }, format!("verdict success={s} but all-proven={all_proven} (real processes, stand-in prover)")));
        }
    }
    let verdict = lines.iter().find_map(|l| if l.starts_with("> Success!") { Some(true) } else if l.starts_with("> Failure!") { Some(false) } else { None });
    let _ = std::fs::remove_dir_all(&sock_dir);
    if let Some(d) = out_dir {
        let _ = std::fs::remove_dir_all(d);
    }
    Ok(XResult { violations: v, stdout, connections: standins.len(), grace_used, order, verdict, expected: all_proven, slow, spawn_faults, write_faults, short_writes, split_deliveries, lazy_readers })
}

/// Replay file of a violation seen by the E2 engine.
#[derive(Clone, serde::Serialize, serde::Deserialize)]
pub struct XReplay {
    pub property: String,
    pub engine: String,
    pub seed: u64,
    pub cross_case: u64,
    pub slow_case: bool,
    #[serde(default)]
    pub large_case: bool,
    pub case: Case,
    pub violation: Violation,
    pub note: String,
}

/// Re-run an E2 case from its replay file; returns the violations seen now.
pub fn replay(r: &XReplay) -> Result<Vec<Violation>, String> {
    let bins = Binaries::locate();
    let mut scratch = Scratch::new("xreplay");
    let prep = exec::prepare(&r.case, &mut scratch);
    let x = run_case(&bins, &r.case, &prep.reference, &prep.in_dir, &mut scratch, mix2(r.seed, 1_000_000_000 + r.cross_case), r.slow_case, r.large_case)?;
    Ok(x.violations)
}

#[derive(Default, serde::Serialize)]
pub struct XSummary {
    pub runs: u64,
    pub grace_used: u64,
    pub split_output_deliveries: u64,
    pub large_problem_runs: u64,
    pub provers_slow_to_read_their_input: u64,
    pub connections: u64,
    pub e1_e2_stdout_compared: u64,
    pub e1_e2_verdict_compared: u64,
    pub missing_executable_runs: u64,
    pub early_exit_runs: u64,
    pub out_of_order_completions: u64,
    pub slow_prover_runs: u64,
    pub spawn_faults_fired: u64,
    pub write_faults_fired: u64,
    pub short_writes_fired: u64,
    pub by_instances: BTreeMap<String, u64>,
}

fn sorted_lines(b: &[u8]) -> Vec<String> {
    let mut v: Vec<String> = String::from_utf8_lossy(b).lines().map(str::to_string).collect();
    v.sort();
    v
}

/// Run `n` cross-check cases; returns (summary, violations with a description of the case, harness disagreements).
pub fn campaign(seed: u64, n: u64, thorough: bool, workers: usize, e2_only: bool) -> (XSummary, Vec<XReplay>, Vec<String>) {
    use std::sync::atomic::{AtomicU64, Ordering};
    use std::sync::{Arc, Mutex};
    let bins = Arc::new(Binaries::locate());
    let tasks = Arc::new(crate::c10::tasks());
    let next = Arc::new(AtomicU64::new(0));
    let acc: Arc<Mutex<(XSummary, Vec<XReplay>, Vec<String>)>> = Arc::new(Mutex::new((XSummary::default(), vec![], vec![])));
    let mut hs = vec![];
    for w in 0..workers {
        let (bins, tasks, next, acc) = (bins.clone(), tasks.clone(), next.clone(), acc.clone());
        let large_tasks: Vec<crate::corpus::Task> = tasks.iter().filter(|t| t.large).cloned().collect();
        hs.push(std::thread::Builder::new().stack_size(64 << 20).spawn(move || {
            anthem_simrt::sched::install_quiet_panic_hook();
            let mut scratch = Scratch::new(&format!("x{w}"));
            let tier = Tier { thorough };
            loop {
                let j = next.fetch_add(1, Ordering::SeqCst);
                if j >= n {
                    break;
                }
                // same generator as E1, on its own index range
                let i = 1_000_000_000 + j;
                // every 8th case is a "slow provers" case: enough problems that a queue forms behind two instances,
                // each prover slow in real time but inside its own one-second limit
                let slow_case = j % 8 == 7;
                // every 8th case is a "large problems" case: every problem is larger than a pipe buffer, two or three
                // instances, provers released as they come and some of them slow to read their input
                let large_case = j % 8 == 3 && !large_tasks.is_empty();
                let mut drawn = None;
                for attempt in 0..if slow_case { 80u64 } else { 1 } {
                    let (c, p, skip) = crate::c10::draw_case(seed, i + attempt * 1_000_003, if large_case { &large_tasks } else { &tasks }, &tier, &mut scratch);
                    if skip.is_some() {
                        continue;
                    }
                    let p = p.unwrap();
                    if !slow_case || (10..=14).contains(&p.reference.len()) {
                        drawn = Some((c, p));
                        break;
                    }
                }
                let Some((mut case, prep)) = drawn else { continue };
                if slow_case {
                    case.run_flags = vec!["-n".into(), "2".into(), "-t".into(), "1".into()];
                    case.instances = 2;
                }
                if large_case {
                    let n = 2 + (j / 8) % 2;
                    case.run_flags = vec!["-n".into(), n.to_string(), "-t".into(), "60".into()];
                    case.instances = n as usize;
                }
                // keep only the fault kinds E2 can produce
                case.plan.faults.retain(|_, f| matches!(f, Fault::EarlyExit { .. } | Fault::SpawnErr { .. } | Fault::WriteErr { .. }));
                let fault_free = case.plan.faults.is_empty() && !case.plan.spawn_all_enoent;
                let x = match run_case(&bins, &case, &prep.reference, &prep.in_dir, &mut scratch, mix2(seed, i), slow_case, large_case) {
                    Ok(x) => x,
                    Err(e) => {
                        acc.lock().unwrap().2.push(format!("case {j}: coordinator error: {e}"));
                        continue;
                    }
                };
                if e2_only {
                    let mut a = acc.lock().unwrap();
                    a.0.runs += 1;
                    a.0.grace_used += x.grace_used;
                    a.0.split_output_deliveries += x.split_deliveries;
                    a.0.provers_slow_to_read_their_input += x.lazy_readers;
                    if large_case {
                        a.0.large_problem_runs += 1;
                    }
                    a.0.connections += x.connections as u64;
                    *a.0.by_instances.entry(case.instances.to_string()).or_insert(0) += 1;
                    for v in &x.violations {
                        a.1.push(XReplay { property: "C10".into(), engine: "E2".into(), seed, cross_case: j, slow_case, large_case, case: case.clone(), violation: v.clone(), note: "shipped binary, real threads and pipes, stand-in prover driven by the coordinator; the release order is drawn from the seed, the timing inside one quiescent step is the operating system's".into() });
                    }
                    continue;
                }
                // E1 on the same case (calm schedule) for the fidelity comparison
                let mut c1 = case.clone();
                c1.run_flags.retain(|f| f != "--no-timing");
                c1.run_flags.push("--no-timing".into());
                c1.save_problems = false;
                // (in a process of its own: the tree under test must not be able to take the driver down)
                let e1 = crate::c10::try_in_fresh_process(
                    &crate::c10::Replay { property: "C10".into(), seed, index: i, k: 0, case: c1.clone(), sched: anthem_simrt::sched::SchedSpec::Calm { overrides: vec![] }, max_steps: crate::c10::FIRST_BOUND, violation: Violation { class: String::new(), detail: String::new() }, digest: String::new(), note: String::new() },
                    &mut scratch,
                );
                let e1_usable = !e1.violations.iter().any(|v| v.class == "abort" || v.class == "E1-inapplicable");
                let v1 = e1.violations.clone();
                let mut a = acc.lock().unwrap();
                a.0.runs += 1;
                a.0.grace_used += x.grace_used;
                    a.0.split_output_deliveries += x.split_deliveries;
                    a.0.provers_slow_to_read_their_input += x.lazy_readers;
                    if large_case {
                        a.0.large_problem_runs += 1;
                    }
                a.0.connections += x.connections as u64;
                *a.0.by_instances.entry(case.instances.to_string()).or_insert(0) += 1;
                if case.plan.spawn_all_enoent {
                    a.0.missing_executable_runs += 1;
                }
                if !case.plan.faults.is_empty() {
                    a.0.early_exit_runs += 1;
                }
                if !x.order.windows(2).all(|w| w[0] <= w[1]) {
                    a.0.out_of_order_completions += 1;
                }
                if x.slow {
                    a.0.slow_prover_runs += 1;
                }
                a.0.spawn_faults_fired += x.spawn_faults;
                a.0.write_faults_fired += x.write_faults;
                a.0.short_writes_fired += x.short_writes;
                for v in &x.violations {
                    a.1.push(XReplay { property: "C10".into(), engine: "E2".into(), seed, cross_case: j, slow_case, large_case, case: case.clone(), violation: v.clone(), note: "shipped binary, real threads and pipes, stand-in prover driven by the coordinator; the release order is drawn from the seed, the timing inside one quiescent step is the operating system's".into() });
                }
                // (faults injected through libc fire at different places in the two engines: no verdict comparison then)
                let libc_faults = case.plan.faults.values().any(|f| matches!(f, Fault::SpawnErr { .. } | Fault::WriteErr { .. }));
                if x.violations.is_empty() && v1.is_empty() && e1_usable && !libc_faults {
                    a.0.e1_e2_verdict_compared += 1;
                    if e1.verdict != x.verdict {
                        a.2.push(format!("case {j}: E1 verdict {:?} but E2 verdict {:?} although both oracles pass (model infidelity)", e1.verdict, x.verdict));
                    }
                    if fault_free {
                        a.0.e1_e2_stdout_compared += 1;
                        if sorted_lines(e1.stdout.as_bytes()) != sorted_lines(&x.stdout) {
                            a.2.push(format!("case {j}: E1 and E2 stdout differ as line multisets although both oracles pass (model infidelity)"));
                        }
                    }
                }
            }
        }).unwrap());
    }
    for h in hs {
        let _ = h.join();
    }
    Arc::try_unwrap(acc).ok().unwrap().into_inner().unwrap()
}

#[allow(dead_code)]
pub fn unused(_: &gen::Case) {}
