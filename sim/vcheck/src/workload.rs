//! The fixed C18 workload: every CLI command that produces output, over every input shipped with the
//! repository and the small corpus. No generated programs: the inputs are held fixed and the
//! *environment* is what the simulator varies.
use crate::corpus::{self, Task};
use crate::e2::{self, Binaries, Env};
use serde::{Deserialize, Serialize};
use std::collections::BTreeSet;
use std::fs;
use std::path::{Path, PathBuf};

#[derive(Clone, Debug, Serialize, Deserialize)]
pub struct Cmd {
    pub id: String,
    pub kind: String,
    /// argv after the program name; "$IN/<name>" and "$OUT" are placeholders.
    pub args: Vec<String>,
    /// Input files (relative name, content).
    pub files: Vec<(String, String)>,
    /// Feed this file on stdin instead of naming it (the last "$IN/..." argument is dropped).
    pub stdin_file: Option<String>,
    pub uses_out: bool,
}

impl Cmd {
    pub fn resolved_args(&self, in_dir: &Path, out_dir: &Path) -> Vec<String> {
        self.args
            .iter()
            .map(|a| {
                if let Some(rest) = a.strip_prefix("$IN/") {
                    in_dir.join(rest).to_string_lossy().into_owned()
                } else if a == "$IN" {
                    in_dir.to_string_lossy().into_owned()
                } else if a == "$OUT" {
                    out_dir.to_string_lossy().into_owned()
                } else {
                    a.clone()
                }
            })
            .collect()
    }

    pub fn materialise(&self, dir: &Path) {
        for (name, content) in &self.files {
            let p = dir.join(name);
            if let Some(parent) = p.parent() {
                let _ = fs::create_dir_all(parent);
            }
            fs::write(p, content).expect("write input");
        }
    }
}

fn collect_files(root: &Path, out: &mut Vec<PathBuf>) {
    let mut entries: Vec<PathBuf> = match fs::read_dir(root) {
        Ok(rd) => rd.filter_map(|e| e.ok().map(|e| e.path())).collect(),
        Err(_) => return,
    };
    entries.sort();
    for p in entries {
        if p.is_dir() {
            if p.file_name().map(|n| n == "out").unwrap_or(false) {
                continue;
            }
            collect_files(&p, out);
        } else {
            out.push(p);
        }
    }
}

fn s(x: &str) -> String {
    x.to_string()
}

pub struct Workload {
    pub cmds: Vec<Cmd>,
    pub theories_accepted: usize,
    pub theories_rejected: usize,
}

/// Build the command list. `quick` keeps one representative flag combination per task where thorough takes all.
pub fn build(bins: &Binaries, repo: &Path, verif: &Path, thorough: bool, scratch: &Path) -> Workload {
    let mut cmds = vec![];
    let mut inputs = vec![];
    collect_files(&repo.join("res/examples"), &mut inputs);
    collect_files(&verif.join("corpus"), &mut inputs);
    // (corpus/big only exists to give the C10 engines problems larger than a pipe buffer)
    inputs.retain(|p| !p.starts_with(verif.join("corpus/big")));
    let mut seen = BTreeSet::new();
    let mut theories_accepted = 0;
    let mut theories_rejected = 0;
    for path in &inputs {
        let ext = path.extension().and_then(|e| e.to_str()).unwrap_or("");
        let content = match fs::read_to_string(path) {
            Ok(c) => c,
            Err(_) => continue,
        };
        let label = path.strip_prefix(repo).or_else(|_| path.strip_prefix(verif)).unwrap_or(path).to_string_lossy().replace('/', ":");
        if !seen.insert((ext.to_string(), content.clone())) {
            continue; // identical file under another name
        }
        let name = format!("input.{ext}");
        let one = |kind: &str, args: Vec<String>, id: String, stdin: bool| Cmd {
            id,
            kind: s(kind),
            args,
            files: vec![(name.clone(), content.clone())],
            stdin_file: if stdin { Some(name.clone()) } else { None },
            uses_out: false,
        };
        let input_arg = format!("$IN/{name}");
        match ext {
            "lp" => {
                for out in ["debug", "default"] {
                    cmds.push(one("parse", vec![s("parse"), s("--as"), s("program"), s("--output"), s(out), input_arg.clone()], format!("parse-program-{out}:{label}"), false));
                }
                cmds.push(one("parse", vec![s("parse"), s("--as"), s("program"), s("--output"), s("default")], format!("parse-program-stdin:{label}"), true));
                for prop in ["tightness", "regularity"] {
                    cmds.push(one("analyze", vec![s("analyze"), s("--property"), s(prop), input_arg.clone()], format!("analyze-{prop}:{label}"), false));
                }
                for with in ["tau-star", "mu", "natural"] {
                    cmds.push(one("translate", vec![s("translate"), s("--with"), s(with), input_arg.clone()], format!("translate-{with}:{label}"), false));
                }
                cmds.push(one("translate", vec![s("translate"), s("--with"), s("tau-star")], format!("translate-tau-star-stdin:{label}"), true));
                // the tau-star theory of this program as an input of its own
                let probe_dir = scratch.join("probe");
                let _ = fs::create_dir_all(&probe_dir);
                let f = probe_dir.join("p.lp");
                fs::write(&f, &content).unwrap();
                let out = e2::run_anthem(bins, &[s("translate"), s("--with"), s("tau-star"), f.to_string_lossy().into_owned()], &probe_dir, None, &Env::plain(), &[], 120);
                if let Ok(o) = out {
                    if o.code == Some(0) && !o.stdout.is_empty() {
                        let theory = String::from_utf8_lossy(&o.stdout).into_owned();
                        let tf = probe_dir.join("t.txt");
                        fs::write(&tf, &theory).unwrap();
                        let ok = e2::run_anthem(bins, &[s("parse"), s("--as"), s("theory"), tf.to_string_lossy().into_owned()], &probe_dir, None, &Env::plain(), &[], 120)
                            .map(|o| o.code == Some(0))
                            .unwrap_or(false);
                        if ok && seen.insert((s("theory"), theory.clone())) {
                            theories_accepted += 1;
                            let tname = s("input.theory.txt");
                            let targ = format!("$IN/{tname}");
                            let mk = |kind: &str, args: Vec<String>, id: String| Cmd { id, kind: s(kind), args, files: vec![(tname.clone(), theory.clone())], stdin_file: None, uses_out: false };
                            cmds.push(mk("parse", vec![s("parse"), s("--as"), s("theory"), s("--output"), s("default"), targ.clone()], format!("parse-theory:{label}")));
                            for with in ["gamma", "completion"] {
                                cmds.push(mk("translate", vec![s("translate"), s("--with"), s(with), targ.clone()], format!("translate-{with}:{label}")));
                            }
                            for portfolio in ["classic", "ht", "intuitionistic"] {
                                for strategy in ["shallow", "recursive", "fixpoint"] {
                                    if !thorough && strategy != "fixpoint" && portfolio != "classic" {
                                        continue;
                                    }
                                    cmds.push(mk("simplify", vec![s("simplify"), s("--portfolio"), s(portfolio), s("--strategy"), s(strategy), targ.clone()], format!("simplify-{portfolio}-{strategy}:{label}")));
                                }
                            }
                        } else if !ok {
                            theories_rejected += 1;
                        }
                        // second-generation theories: what anthem itself derives from this program (mu, natural, and the
                        // gamma / completion images of the tau-star theory) as fixpoint inputs of their own
                        if ok {
                            let mut derived: Vec<(String, String)> = vec![];
                            for (tag, args) in [
                                ("mu", vec![s("translate"), s("--with"), s("mu"), f.to_string_lossy().into_owned()]),
                                ("natural", vec![s("translate"), s("--with"), s("natural"), f.to_string_lossy().into_owned()]),
                                ("gamma", vec![s("translate"), s("--with"), s("gamma"), tf.to_string_lossy().into_owned()]),
                                ("completion", vec![s("translate"), s("--with"), s("completion"), tf.to_string_lossy().into_owned()]),
                            ] {
                                if let Ok(o) = e2::run_anthem(bins, &args, &probe_dir, None, &Env::plain(), &[], 120) {
                                    if o.code == Some(0) && !o.stdout.is_empty() {
                                        derived.push((tag.to_string(), String::from_utf8_lossy(&o.stdout).into_owned()));
                                    }
                                }
                            }
                            for (tag, theory) in derived {
                                let df = probe_dir.join("d.txt");
                                fs::write(&df, &theory).unwrap();
                                let parses = e2::run_anthem(bins, &[s("parse"), s("--as"), s("theory"), df.to_string_lossy().into_owned()], &probe_dir, None, &Env::plain(), &[], 120).map(|o| o.code == Some(0)).unwrap_or(false);
                                if !parses || !seen.insert((s("theory"), theory.clone())) {
                                    continue;
                                }
                                let tname = s("input.theory.txt");
                                let targ = format!("$IN/{tname}");
                                for portfolio in ["classic", "ht", "intuitionistic"] {
                                    if !thorough && portfolio != "classic" {
                                        continue;
                                    }
                                    cmds.push(Cmd {
                                        id: format!("simplify-{portfolio}-fixpoint:{tag}-of:{label}"),
                                        kind: s("simplify"),
                                        args: vec![s("simplify"), s("--portfolio"), s(portfolio), s("--strategy"), s("fixpoint"), targ.clone()],
                                        files: vec![(tname.clone(), theory.clone())],
                                        stdin_file: None,
                                        uses_out: false,
                                    });
                                }
                            }
                        }
                    }
                }
            }
            "spec" | "po" => {
                cmds.push(one("parse", vec![s("parse"), s("--as"), s("specification"), s("--output"), s("default"), input_arg.clone()], format!("parse-spec:{label}"), false));
                cmds.push(one("parse", vec![s("parse"), s("--as"), s("specification"), input_arg.clone()], format!("parse-spec-debug:{label}"), false));
            }
            "th" => {
                // hand-written theories (fixpoint stress inputs)
                cmds.push(one("parse", vec![s("parse"), s("--as"), s("theory"), s("--output"), s("default"), input_arg.clone()], format!("parse-theory:{label}"), false));
                for with in ["gamma", "completion"] {
                    cmds.push(one("translate", vec![s("translate"), s("--with"), s(with), input_arg.clone()], format!("translate-{with}:{label}"), false));
                }
                for portfolio in ["classic", "ht", "intuitionistic"] {
                    for strategy in ["shallow", "recursive", "fixpoint"] {
                        cmds.push(one("simplify", vec![s("simplify"), s("--portfolio"), s(portfolio), s("--strategy"), s(strategy), input_arg.clone()], format!("simplify-{portfolio}-{strategy}:{label}"), false));
                    }
                }
            }
            "ug" => {
                cmds.push(one("parse", vec![s("parse"), s("--as"), s("user-guide"), s("--output"), s("default"), input_arg.clone()], format!("parse-ug:{label}"), false));
            }
            _ => {}
        }
    }

    // verify tasks: problem generation only
    let tasks: Vec<Task> = corpus::load(repo, verif).into_iter().filter(|t| !t.large).collect();
    for t in &tasks {
        let files: Vec<(String, String)> = t.files.iter().map(|f| (f.clone(), fs::read_to_string(t.dir.join(f)).unwrap_or_default())).collect();
        let mut combos: Vec<Vec<String>> = vec![];
        let dirs: Vec<Option<&str>> = if t.has_direction { vec![None] } else { vec![None, Some("forward"), Some("backward")] };
        for d in &dirs {
            for dec in [None, Some("independent")] {
                for simp in [false, true] {
                    for eqb in [false, true] {
                        let mut c = vec![];
                        if let Some(d) = d {
                            c.push(s("--direction"));
                            c.push(s(d));
                        }
                        if let Some(x) = dec {
                            c.push(s("--decomposition"));
                            c.push(s(x));
                        }
                        if simp {
                            c.push(s("--no-simplify"));
                        }
                        if eqb {
                            c.push(s("--no-eq-break"));
                        }
                        combos.push(c);
                    }
                }
            }
        }
        if !thorough {
            // default flags, plus one other combination chosen by the task's position
            let pick = 1 + (cmds.len() % (combos.len() - 1));
            combos = vec![combos[0].clone(), combos[pick].clone()];
        }
        if t.weight > 6000 && !thorough {
            combos.truncate(1);
        }
        for (ci, combo) in combos.iter().enumerate() {
            let mut args = vec![s("verify")];
            args.extend(t.options.iter().cloned());
            args.extend(combo.iter().cloned());
            args.push(s("--no-proof-search"));
            args.push(s("--save-problems"));
            args.push(s("$OUT"));
            let mut explicit = args.clone();
            explicit.extend(t.files.iter().map(|f| format!("$IN/{f}")));
            cmds.push(Cmd { id: format!("verify:{}:{ci}", t.id), kind: s("verify"), args: explicit, files: files.clone(), stdin_file: None, uses_out: true });
            if ci == 0 {
                // problem generation with proof search switched on: no prover is installed on the PATH these runs get, so
                // every problem ends in the same "unable to spawn" error, sequentially (-n 1); the saved files must not care
                let mut searching: Vec<String> = vec![s("verify")];
                searching.extend(t.options.iter().cloned());
                searching.extend([s("--no-timing"), s("-n"), s("1"), s("--save-problems"), s("$OUT")]);
                searching.extend(t.files.iter().map(|f| format!("$IN/{f}")));
                cmds.push(Cmd { id: format!("verify-search:{}:{ci}", t.id), kind: s("verify-search"), args: searching, files: files.clone(), stdin_file: None, uses_out: true });
                // the same files through their directory: which file plays which role is Files::sort's business
                let mut via_dir = args.clone();
                via_dir.push(s("$IN"));
                cmds.push(Cmd { id: format!("verify-dir:{}:{ci}", t.id), kind: s("verify-dir"), args: via_dir, files: files.clone(), stdin_file: None, uses_out: true });
            }
        }
    }
    // every example directory as it is shipped (all of its files, not only those one task names): which of several
    // candidates plays a role is decided by name order alone, never by creation order or modification time
    let mut seen_dirs = BTreeSet::new();
    for t in &tasks {
        if !t.dir.starts_with(repo) || !seen_dirs.insert(t.dir.clone()) {
            continue;
        }
        let mut all: Vec<(String, String)> = vec![];
        if let Ok(rd) = fs::read_dir(&t.dir) {
            let mut names: Vec<PathBuf> = rd.filter_map(|e| e.ok().map(|e| e.path())).filter(|p| p.is_file()).collect();
            names.sort();
            for p in names {
                let n = p.file_name().unwrap().to_string_lossy().into_owned();
                if n.starts_with('.') || n == "README.md" {
                    continue;
                }
                if let Ok(c) = fs::read_to_string(&p) {
                    all.push((n, c));
                }
            }
        }
        if all.len() < 2 {
            continue;
        }
        let equivalence: Vec<String> = {
            let mut v = vec![];
            let mut it = t.options.iter();
            while let Some(o) = it.next() {
                if o == "--equivalence" {
                    v.push(o.clone());
                    if let Some(x) = it.next() {
                        v.push(x.clone());
                    }
                } else if o.starts_with("--equivalence=") || o == "--bypass-tightness" {
                    v.push(o.clone());
                }
            }
            v
        };
        let mut args = vec![s("verify")];
        args.extend(equivalence);
        args.extend([s("--no-proof-search"), s("--save-problems"), s("$OUT"), s("$IN")]);
        cmds.push(Cmd { id: format!("verify-wholedir:{}", t.id), kind: s("verify-dir"), args, files: all, stdin_file: None, uses_out: true });
    }
    Workload { cmds, theories_accepted, theories_rejected }
}
