//! In-process half of C18 (same process, same argv, twice): placeholder until envsim lands.
use crate::Args;

pub fn inproc(_args: &Args) {
    eprintln!("not implemented yet");
    std::process::exit(2);
}
