//! C18: determinism of every output under a seeded process environment (E2), plus the same-process
//! repetition (E1) and, as a side-invariant on the workload only, termination/idempotence of fixpoint runs.
use crate::e2::{self, Binaries, Env, ProcOut};
use crate::exec::Scratch;
use crate::workload::{self, Cmd};
use crate::{Args, harness_error, seed_from, verif_home};
use anthem_simrt::plan::{Plan, Rng, mix3};
use anthem_simrt::sched::{ExecStatus, SchedSpec, run_execution};
use anthem_simrt::state::Scenario;
use serde::{Deserialize, Serialize};
use std::collections::{BTreeMap, BTreeSet};
use std::fs;
use std::path::{Path, PathBuf};
use std::sync::atomic::{AtomicUsize, Ordering};
use std::sync::{Arc, Mutex};
use std::time::Instant;

pub const TIMEOUT_S: u64 = 120;
static CRASHES: AtomicUsize = AtomicUsize::new(0);
static CRASHES_MID_RUN: AtomicUsize = AtomicUsize::new(0);

#[derive(Clone, Debug, PartialEq, Eq)]
pub struct Obs {
    pub code: Option<i32>,
    pub signal: Option<i32>,
    pub stdout: Vec<u8>,
    pub stderr: Vec<u8>,
    pub files: Vec<(String, Vec<u8>)>,
    pub timed_out: bool,
    /// Injected output-write faults that fired in this run (from the interposer's own log).
    pub out_faults: u64,
    /// Files that a crashed earlier run left in the output directory and that this run did not touch (same bytes
    /// before and after): not output of this run, unless the other side produced a file of that name.
    pub leftover: Vec<String>,
}

pub static OUT_FAULT_RUNS: AtomicUsize = AtomicUsize::new(0);
pub static OUT_FAULTS_FIRED: AtomicUsize = AtomicUsize::new(0);
pub static OUT_FAULT_FAILED_CLEANLY: AtomicUsize = AtomicUsize::new(0);

/// `compare`, except that a run in which an injected write fault fired may fail (but not succeed with other output).
pub fn judge(base: &Obs, x: &Obs, env: &Env) -> Option<Diff> {
    if let (Some((k, e)), true) = (env.out_fail, x.out_faults > 0) {
        if x.code != Some(0) && !x.timed_out {
            OUT_FAULT_FAILED_CLEANLY.fetch_add(1, Ordering::Relaxed);
            return None;
        }
        return compare(base, x).map(|mut d| {
            d.what = format!("{} (write #{k} to an output file failed with errno {e}, yet anthem exited successfully)", d.what);
            d
        });
    }
    compare(base, x)
}

fn scrub(bytes: Vec<u8>, out_dir: &Path) -> Vec<u8> {
    // the only run-specific string that may legitimately appear in messages is the output directory
    let needle = out_dir.to_string_lossy().into_owned().into_bytes();
    if needle.is_empty() || bytes.len() < needle.len() {
        return bytes;
    }
    let mut res = Vec::with_capacity(bytes.len());
    let mut i = 0;
    while i < bytes.len() {
        if bytes[i..].starts_with(&needle) {
            res.extend_from_slice(b"$OUT");
            i += needle.len();
        } else {
            res.push(bytes[i]);
            i += 1;
        }
    }
    res
}

/// Leftovers of an earlier run for another claim: files of the names this command will write, with longer contents.
pub fn dirty(out_dir: &Path, names: &[(String, Vec<u8>)]) {
    for (i, (n, c)) in names.iter().enumerate() {
        // every other file looks like a genuine problem file of an earlier run (same preamble), only longer
        let mut stale = if i % 2 == 0 { b"% left behind by an earlier run\n".to_vec() } else { vec![] };
        stale.extend_from_slice(c);
        stale.extend_from_slice(b"tff(stale_tail, axiom, $false).\n% end of stale file\n");
        let _ = fs::write(out_dir.join(n), stale);
    }
}

pub fn observe(bins: &Binaries, cmd: &Cmd, in_dir: &Path, out_dir: &Path, env: &Env) -> Obs {
    // short reads / EINTR apply to the input files only (never to /proc, /sys or shared libraries)
    let mut env = env.clone();
    env.io_prefixes = vec![in_dir.to_string_lossy().into_owned()];
    let env = &env;
    let mut args = cmd.resolved_args(in_dir, out_dir);
    let stdin_data = cmd.stdin_file.as_ref().map(|n| cmd.files.iter().find(|(f, _)| f == n).map(|(_, c)| c.clone().into_bytes()).unwrap_or_default());
    if cmd.stdin_file.is_some() {
        // the file is not named on the command line
        args.retain(|a| !a.starts_with(&*in_dir.to_string_lossy()));
    }
    // a command that names its input must not look at the stdin it inherits
    let stdin_data = match (&stdin_data, env.stdin_noise, cmd.files.first()) {
        (None, true, Some((_, content))) => Some(content.clone().into_bytes()),
        _ => stdin_data,
    };
    let mut before: Vec<(String, Vec<u8>)> = vec![];
    if let (Some(us), true) = (env.crash_first_us, cmd.uses_out) {
        // crash-restart: an earlier run of the very same command died at an arbitrary point
        if let Ok(true) = e2::crash_anthem(bins, &args, in_dir, env, us) {
            CRASHES_MID_RUN.fetch_add(1, Ordering::Relaxed);
        }
        CRASHES.fetch_add(1, Ordering::Relaxed);
        before = crate::exec::read_dir_files(out_dir);
    }
    let mut extra = vec![];
    let iolog = PathBuf::from(format!("{}.iolog", out_dir.display()));
    if env.out_fail.is_some() {
        OUT_FAULT_RUNS.fetch_add(1, Ordering::Relaxed);
        extra.push(("VERIF_ENV_LOG".to_string(), iolog.to_string_lossy().into_owned()));
    }
    let po: ProcOut = match e2::run_anthem(bins, &args, in_dir, stdin_data.as_deref(), env, &extra, TIMEOUT_S) {
        Ok(p) => p,
        Err(e) => harness_error(&format!("cannot run {}: {e}", bins.anthem.display())),
    };
    let mut out_faults = 0;
    if env.out_fail.is_some() {
        if let Ok(text) = fs::read_to_string(&iolog) {
            for kv in text.split_whitespace() {
                if let Some(v) = kv.strip_prefix("filewritefaults=") {
                    out_faults += v.parse::<u64>().unwrap_or(0);
                }
            }
        }
        let _ = fs::remove_file(&iolog);
        OUT_FAULTS_FIRED.fetch_add(out_faults as usize, Ordering::Relaxed);
    }
    let files = if cmd.uses_out { crate::exec::read_dir_files(out_dir) } else { vec![] };
    let leftover = files.iter().filter(|f| before.contains(f)).map(|f| f.0.clone()).collect();
    Obs { code: po.code, signal: po.signal, stdout: scrub(po.stdout, out_dir), stderr: scrub(po.stderr, out_dir), files, timed_out: po.timed_out, out_faults, leftover }
}

#[derive(Clone, Debug, Serialize, Deserialize)]
pub struct Diff {
    pub what: String,
    pub first_diff: usize,
    pub excerpt_a: String,
    pub excerpt_b: String,
}

pub fn compare(a: &Obs, b: &Obs) -> Option<Diff> {
    if a.code != b.code || a.signal != b.signal {
        return Some(Diff { what: "exit status".into(), first_diff: 0, excerpt_a: format!("{:?}/{:?}", a.code, a.signal), excerpt_b: format!("{:?}/{:?}", b.code, b.signal) });
    }
    if let Some(at) = e2::first_diff(&a.stdout, &b.stdout) {
        return Some(Diff { what: "stdout".into(), first_diff: at, excerpt_a: e2::excerpt(&a.stdout, at), excerpt_b: e2::excerpt(&b.stdout, at) });
    }
    // stderr is the output of a command that fails (its error message); on success it is diagnostics, which the
    // statement does not constrain (a logger with timestamps, say)
    if a.code != Some(0) {
        if let Some(at) = e2::first_diff(&a.stderr, &b.stderr) {
            return Some(Diff { what: "stderr (error message of a failing command)".into(), first_diff: at, excerpt_a: e2::excerpt(&a.stderr, at), excerpt_b: e2::excerpt(&b.stderr, at) });
        }
    }
    if false {
        let at = 0;
        return Some(Diff { what: "stderr".into(), first_diff: at, excerpt_a: e2::excerpt(&a.stderr, at), excerpt_b: e2::excerpt(&b.stderr, at) });
    }
    // (a file that a crashed earlier run left behind under a name of its own and that this run never touched is not
    // output of this run; a temporary file named after the crashed process, say)
    let fa: Vec<&(String, Vec<u8>)> = a.files.iter().filter(|f| !(a.leftover.contains(&f.0) && !b.files.iter().any(|g| g.0 == f.0))).collect();
    let fb: Vec<&(String, Vec<u8>)> = b.files.iter().filter(|f| !(b.leftover.contains(&f.0) && !a.files.iter().any(|g| g.0 == f.0))).collect();
    let na: Vec<&String> = fa.iter().map(|f| &f.0).collect();
    let nb: Vec<&String> = fb.iter().map(|f| &f.0).collect();
    if na != nb {
        return Some(Diff { what: "set of output files".into(), first_diff: 0, excerpt_a: format!("{na:?}"), excerpt_b: format!("{nb:?}") });
    }
    for ((n, x), (_, y)) in fa.iter().map(|f| (&f.0, &f.1)).zip(fb.iter().map(|f| (&f.0, &f.1))) {
        if let Some(at) = e2::first_diff(x, y) {
            return Some(Diff { what: format!("file {n}"), first_diff: at, excerpt_a: e2::excerpt(x, at), excerpt_b: e2::excerpt(y, at) });
        }
    }
    None
}

#[derive(Clone, Debug, Serialize, Deserialize)]
pub struct Replay {
    pub property: String,
    /// "environment" (two environments disagree), "same-process" (second call in one process differs),
    /// "fixpoint-idempotence", "hang"
    pub kind: String,
    pub seed: u64,
    pub cmd: Cmd,
    pub env_a: Env,
    pub env_b: Env,
    pub diff: Option<Diff>,
    pub note: String,
    /// For kind "same-process": the commands that ran earlier in the same process, in order.
    #[serde(default)]
    pub history: Vec<Cmd>,
}

pub fn env_for(seed: u64, cmd_index: usize, r: usize) -> Env {
    if r == 0 {
        return Env::plain();
    }
    let mut rng = Rng::new(mix3(seed, cmd_index as u64, r as u64));
    Env::draw(&mut rng)
}

fn fresh(scratch: &Mutex<Scratch>, prefix: &str) -> PathBuf {
    scratch.lock().unwrap().fresh_dir(prefix)
}

/// Does `cmd` give different observations under the two environments? (fresh dirs each time)
pub fn differs(bins: &Binaries, cmd: &Cmd, a: &Env, b: &Env, scratch: &Mutex<Scratch>) -> Option<Diff> {
    let in_dir = fresh(scratch, "in");
    cmd.materialise(&in_dir);
    let oa = fresh(scratch, "out");
    let ob = fresh(scratch, "out");
    let xa = observe(bins, cmd, &in_dir, &oa, a);
    if b.dirty_out && cmd.uses_out {
        dirty(&ob, &xa.files);
    }
    let xb = observe(bins, cmd, &in_dir, &ob, b);
    let d = judge(&xa, &xb, b);
    for d in [&in_dir, &oa, &ob] {
        let _ = fs::remove_dir_all(d);
    }
    d
}

/// Does `cmd`, called (twice) after `history` in one process, differ from what a fresh process produces?
pub fn same_process_fails(bins: &Binaries, cmd: &Cmd, history: &[Cmd], scratch: &Mutex<Scratch>) -> Option<String> {
    let dir = fresh(scratch, "hist");
    let mut all: Vec<Cmd> = history.to_vec();
    all.push(cmd.clone());
    let wf = dir.join("workload.json");
    fs::write(&wf, serde_json::to_string(&all).unwrap()).unwrap();
    let idx: Vec<usize> = (0..all.len()).collect();
    let lines = run_history(&wf, &idx);
    let in_dir = fresh(scratch, "in");
    cmd.materialise(&in_dir);
    let out = fresh(scratch, "out");
    let base = observe(bins, cmd, &in_dir, &out, &Env::plain());
    for d in [&dir, &in_dir, &out] {
        let _ = fs::remove_dir_all(d);
    }
    if lines.len() != all.len() {
        return Some(format!("the process ended abnormally after {} of {} commands", lines.len(), all.len()));
    }
    let l = lines.last().unwrap();
    if base.code != Some(0) {
        return None;
    }
    let b = obs_digest(&base.stdout, &base.files);
    if !l.ok {
        Some("the call failed in-process although a fresh process succeeds".into())
    } else if l.d1 != l.d2 {
        Some("the second of two consecutive calls produced different output".into())
    } else if l.d1 != b {
        Some("the call produced different output than a fresh process".into())
    } else {
        None
    }
}

/// Order-sensitive digest of what a command produced (stdout and saved files).
pub fn obs_digest(stdout: &[u8], files: &[(String, Vec<u8>)]) -> u64 {
    let mut h: u64 = 0xcbf29ce484222325;
    let mut eat = |b: &[u8]| {
        for x in b {
            h ^= *x as u64;
            h = h.wrapping_mul(0x100000001b3);
        }
        h ^= 0xff;
        h = h.wrapping_mul(0x100000001b3);
    };
    eat(stdout);
    for (n, c) in files {
        eat(n.as_bytes());
        eat(c);
    }
    h
}

#[derive(Serialize, Deserialize)]
pub struct HistoryLine {
    pub i: usize,
    pub ok: bool,
    pub d1: u64,
    pub d2: u64,
}

/// Subprocess side of the same-process check: run the listed commands one after the other in this one
/// process, each twice, through the hooks-on library, and print a digest of what each call produced.
pub fn history(args: &Args) {
    let path = args.get("workload").unwrap_or_else(|| harness_error("usage: vcheck c18-history --workload FILE --indices i,j,..."));
    let cmds: Vec<Cmd> = serde_json::from_str(&fs::read_to_string(path).unwrap_or_else(|e| harness_error(&format!("{path}: {e}")))).unwrap_or_else(|e| harness_error(&format!("{path}: {e}")));
    let indices: Vec<usize> = args.get("indices").unwrap_or("").split(',').filter_map(|x| x.parse().ok()).collect();
    let scratch = Mutex::new(Scratch::new("c18h"));
    let mut proto = crate::Protocol::take_over_stdout();
    for i in indices {
        let cmd = &cmds[i];
        let in_dir = fresh(&scratch, "in");
        cmd.materialise(&in_dir);
        let mut ds = vec![];
        let mut ok = true;
        for _ in 0..2 {
            let out_dir = fresh(&scratch, "out");
            let mut argv = vec!["anthem".to_string()];
            argv.extend(cmd.resolved_args(&in_dir, &out_dir));
            let r = run_execution(Scenario { argv, cpus: 4, plan: Plan::quiet() }, SchedSpec::Calm { overrides: vec![] }, 10_000_000, false, || anthem::main().map_err(|e| format!("{e:#}")));
            if r.status != ExecStatus::Returned {
                ok = false;
            }
            let files = if cmd.uses_out { crate::exec::read_dir_files(&out_dir) } else { vec![] };
            let _ = fs::remove_dir_all(&out_dir);
            ds.push(obs_digest(&scrub(r.sim.stdout, &out_dir), &files));
        }
        let _ = fs::remove_dir_all(&in_dir);
        if proto.stray_bytes() > 0 {
            // printed around the hooks: the captured output is not the whole output; this history decides nothing
            proto.send("{\"stray_stdout\":true}");
            return;
        }
        proto.send(&serde_json::to_string(&HistoryLine { i, ok, d1: ds[0], d2: ds[1] }).unwrap());
    }
}

/// Parent side: run `indices` of the workload file as one in-process history; returns the lines.
fn run_history(workload_file: &Path, indices: &[usize]) -> Vec<HistoryLine> {
    run_history_x(workload_file, indices).0
}

/// Also says whether the tree printed to stdout around the hooked macros (then the history decides nothing).
fn run_history_x(workload_file: &Path, indices: &[usize]) -> (Vec<HistoryLine>, bool) {
    let list = indices.iter().map(|i| i.to_string()).collect::<Vec<_>>().join(",");
    // a history must not be able to stall the check: a wall budget of 2 s per call plus the budget of one command
    let mut child = std::process::Command::new(std::env::current_exe().unwrap())
        .args(["c18-history", "--workload", workload_file.to_str().unwrap(), "--indices", &list])
        .stdin(std::process::Stdio::null())
        .stdout(std::process::Stdio::piped())
        .stderr(std::process::Stdio::null())
        .spawn()
        .unwrap_or_else(|e| harness_error(&format!("cannot start c18-history: {e}")));
    let mut pipe = child.stdout.take().unwrap();
    let reader = std::thread::spawn(move || {
        let mut v = vec![];
        let _ = std::io::Read::read_to_end(&mut pipe, &mut v);
        v
    });
    let budget = std::time::Duration::from_secs(TIMEOUT_S + 4 * indices.len() as u64);
    let t0 = Instant::now();
    let mut timed_out = false;
    let status = loop {
        match child.try_wait() {
            Ok(Some(st)) => break st,
            Ok(None) if t0.elapsed() > budget => {
                timed_out = true;
                let _ = child.kill();
                break child.wait().unwrap();
            }
            Ok(None) => std::thread::sleep(std::time::Duration::from_millis(5)),
            Err(e) => harness_error(&format!("waiting for c18-history: {e}")),
        }
    };
    struct Out {
        stdout: Vec<u8>,
        status: std::process::ExitStatus,
    }
    let out = Out { stdout: reader.join().unwrap_or_default(), status };
    let text = String::from_utf8_lossy(&out.stdout).into_owned();
    let n_lines = text.lines().filter(|l| serde_json::from_str::<HistoryLine>(l).is_ok()).count();
    // (a history process that ends with status 0 before it is through was ended by the tree itself calling exit():
    // nothing can be concluded from it)
    // (likewise a history that had to be stopped: a call that hangs only inside the long-lived harness process, where
    // the tree's own threads meet the simulator's coroutines, is not evidence about anthem)
    let exited_early = (out.status.code() == Some(0) || timed_out) && n_lines < indices.len();
    let stray = exited_early || text.lines().any(|l| l.contains("\"stray_stdout\":true"));
    (text.lines().filter_map(|l| serde_json::from_str(l).ok()).collect(), stray)
}

#[derive(Default)]
struct Tally {
    runs: u64,
    cmds: u64,
    inproc_pairs: u64,
    idempotence_checked: u64,
    idempotence_skipped_unparsable: u64,
    concurrent_pairs: u64,
    nontrivial: BTreeSet<(usize, String)>,
    by_kind: BTreeMap<String, u64>,
    exit_nonzero_cmds: u64,
    env_dims: BTreeMap<String, u64>,
    violations: Vec<Replay>,
    samples: Vec<serde_json::Value>,
    out_bytes: u64,
    base_digests: Vec<(usize, u64)>,
    history_slices: u64,
    histories_inapplicable: u64,
}

fn env_fingerprint(e: &Env) -> String {
    format!("{:?}", e)
}

fn count_dims(t: &mut Tally, e: &Env) {
    let mut b = |k: &str, on: bool| {
        if on {
            *t.env_dims.entry(k.to_string()).or_insert(0) += 1;
        }
    };
    b("hash_seed_injected", e.hash_seed.is_some());
    b(&format!("dir_order_{}", e.dir_mode), e.preload);
    b("cpu_count_simulated", e.cpus.is_some());
    b("clock_offset", e.clock_offset_ms.is_some());
    b("clock_jumps", e.clock_jump_ms.is_some());
    b("heap_pad", e.heap_pad > 0);
    b("aslr_off", e.aslr_off);
    b("aslr_on_uncontrolled", !e.aslr_off);
    b("stack_pad", e.stack_pad > 0);
    b("locale_tz_term_vars", e.locale.is_some() || e.tz.is_some() || e.term.is_some() || e.no_color || e.columns.is_some());
    b("home_user_rust_vars", !e.extra_vars.is_empty());
    b("other_working_directory", e.other_cwd);
    b("output_directory_with_stale_files", e.dirty_out);
    b("crash_restart_on_same_output_directory", e.crash_first_us.is_some());
    b("inherited_stdin_carries_a_copy_of_the_input", e.stdin_noise);
    b("stdin_producer_pauses_half_way", e.stdin_pause_ms.is_some());
    b("short_reads_on_input_files", e.read_max.is_some());
    b("short_writes_to_output_files", e.out_short_every.is_some());
    b("eintr_on_reads_of_input_files", e.read_eintr_every.is_some());
    b("native_no_interposer", !e.preload);
}

pub fn main(args: &Args) {
    let t0 = Instant::now();
    let seed = seed_from(args);
    let tier = args.get("tier").unwrap_or("quick").to_string();
    let thorough = tier == "thorough";
    let envs = args.u64("envs", if thorough { 64 } else { 5 }) as usize;
    let workers = args.u64("workers", std::thread::available_parallelism().map(|n| n.get() as u64).unwrap_or(8)) as usize;
    let bins = Arc::new(Binaries::locate());
    let repo = PathBuf::from(std::env::var("VERIF_REPO").unwrap_or_else(|_| "/repo".into()));
    let scratch = Arc::new(Mutex::new(Scratch::new("c18")));
    let root = scratch.lock().unwrap().root.clone();
    let _ = e2::INTERPOSER_LOG.set(root.join("interposer.log"));
    let wl = workload::build(&bins, &repo, &verif_home(), thorough, &root);
    let only = args.get("only").map(str::to_string);
    let cmds: Vec<Cmd> = wl.cmds.into_iter().filter(|c| only.as_ref().map(|o| c.id.contains(o.as_str())).unwrap_or(true)).collect();
    println!("C18 tier={tier} seed={seed} commands={} environments/command={} (+1 native) workers={workers}; theories from tau-star re-accepted: {} rejected: {}", cmds.len(), envs, wl.theories_accepted, wl.theories_rejected);
    if cmds.is_empty() {
        harness_error("empty workload");
    }
    let cmds = Arc::new(cmds);
    let next = Arc::new(AtomicUsize::new(0));
    let tally = Arc::new(Mutex::new(Tally::default()));
    let do_inproc = args.get("no-inproc").is_none();

    let mut handles = vec![];
    for _ in 0..workers {
        let (cmds, next, tally, bins, scratch) = (cmds.clone(), next.clone(), tally.clone(), bins.clone(), scratch.clone());
        handles.push(std::thread::Builder::new().stack_size(64 << 20).spawn(move || {
            anthem_simrt::sched::install_quiet_panic_hook();
            loop {
                let ci = next.fetch_add(1, Ordering::SeqCst);
                if ci >= cmds.len() {
                    break;
                }
                let cmd = &cmds[ci];
                let in_dir = fresh(&scratch, "in");
                cmd.materialise(&in_dir);
                let mut local = Tally::default();
                local.cmds = 1;
                *local.by_kind.entry(cmd.kind.clone()).or_insert(0) += 1;
                let out0 = fresh(&scratch, "out");
                let base = observe(&bins, cmd, &in_dir, &out0, &Env::plain());
                let _ = fs::remove_dir_all(&out0);
                local.runs += 1;
                count_dims(&mut local, &Env::plain());
                if base.code != Some(0) {
                    local.exit_nonzero_cmds += 1;
                }
                local.out_bytes += base.stdout.len() as u64 + base.files.iter().map(|f| f.1.len() as u64).sum::<u64>();
                let nontrivial = !base.stdout.is_empty() || !base.files.is_empty();
                // (commands that start provers are left out of the in-process histories: there the prover is the simulator's)
                if base.code == Some(0) && cmd.stdin_file.is_none() && !base.timed_out && cmd.kind != "verify-search" {
                    local.base_digests.push((ci, obs_digest(&base.stdout, &base.files)));
                }
                if base.timed_out {
                    local.violations.push(Replay { property: "C18".into(), kind: "hang".into(), seed, cmd: cmd.clone(), env_a: Env::plain(), env_b: Env::plain(), diff: None, note: format!("no result within {TIMEOUT_S}s"), history: vec![] });
                }
                for r in 1..=envs {
                    if base.timed_out {
                        break; // already reported; do not wait another budget per environment
                    }
                    let env = env_for(seed, ci, r);
                    count_dims(&mut local, &env);
                    if cmd.kind == "verify-dir" && r % 2 == 1 {
                        // the same files, created in the opposite order (native readdir order and mtimes change)
                        let _ = fs::remove_dir_all(&in_dir);
                        fs::create_dir_all(&in_dir).unwrap();
                        let mut rev = cmd.clone();
                        rev.files.reverse();
                        rev.materialise(&in_dir);
                        *local.env_dims.entry("inputs_created_in_reverse_order".into()).or_insert(0) += 1;
                    }
                    let copies = if r == envs { 2 } else { 1 };
                    let mut obs = vec![];
                    if copies == 2 {
                        // two copies of the same command at the same time, separate output directories
                        let outs: Vec<PathBuf> = (0..2).map(|_| fresh(&scratch, "out")).collect();
                        if env.dirty_out && cmd.uses_out {
                            for o in &outs {
                                dirty(o, &base.files);
                            }
                        }
                        let hs: Vec<_> = outs
                            .iter()
                            .map(|o| {
                                let (bins, cmd, in_dir, o, env) = (bins.clone(), cmd.clone(), in_dir.clone(), o.clone(), env.clone());
                                std::thread::spawn(move || observe(&bins, &cmd, &in_dir, &o, &env))
                            })
                            .collect();
                        for h in hs {
                            obs.push(h.join().unwrap());
                        }
                        for o in outs {
                            let _ = fs::remove_dir_all(o);
                        }
                        local.concurrent_pairs += 1;
                    } else {
                        let o = fresh(&scratch, "out");
                        if env.dirty_out && cmd.uses_out {
                            dirty(&o, &base.files);
                        }
                        obs.push(observe(&bins, cmd, &in_dir, &o, &env));
                        let _ = fs::remove_dir_all(o);
                    }
                    for x in &obs {
                        local.runs += 1;
                        if nontrivial {
                            local.nontrivial.insert((ci, env_fingerprint(&env)));
                        }
                        if x.timed_out && !base.timed_out {
                            local.violations.push(Replay { property: "C18".into(), kind: "hang".into(), seed, cmd: cmd.clone(), env_a: env.clone(), env_b: env.clone(), diff: None, note: format!("no result within {TIMEOUT_S}s"), history: vec![] });
                        } else if let Some(d) = compare(&base, x) {
                            if local.violations.len() < 2 {
                                local.violations.push(Replay { property: "C18".into(), kind: "environment".into(), seed, cmd: cmd.clone(), env_a: Env::plain(), env_b: env.clone(), diff: Some(d), note: format!("environment {r} of command {ci}"), history: vec![] });
                            }
                        }
                    }
                }
                // a full disk (or any failing write) while the problems are being saved: fail, or save what is always saved
                if cmd.uses_out && base.code == Some(0) && !base.files.is_empty() && !base.timed_out {
                    let mut rng = Rng::new(anthem_simrt::plan::mix2(seed ^ 0x0fa17, ci as u64));
                    for _ in 0..2 {
                        let mut env = Env::plain();
                        env.preload = true;
                        env.out_fail = Some((*rng.pick(&[1u64, 1, 2, 3, 4, 6, 10, 40, 200, 1000]), *rng.pick(&[28u32, 28, 27, 5, 122])));
                        let o = fresh(&scratch, "out");
                        let x = observe(&bins, cmd, &in_dir, &o, &env);
                        let _ = fs::remove_dir_all(o);
                        local.runs += 1;
                        *local.env_dims.entry("output_write_fault".into()).or_insert(0) += 1;
                        if let Some(d) = judge(&base, &x, &env) {
                            if local.violations.len() < 2 {
                                local.violations.push(Replay { property: "C18".into(), kind: "environment".into(), seed, cmd: cmd.clone(), env_a: Env::plain(), env_b: env.clone(), diff: Some(d), note: format!("output write fault on command {ci}"), history: vec![] });
                            }
                        }
                    }
                }
                // side-invariant on the workload: a fixpoint result is a fixpoint
                if cmd.kind == "simplify" && cmd.id.contains("-fixpoint:") && base.code == Some(0) && !base.timed_out {
                    let mut again = cmd.clone();
                    again.files = vec![(again.files[0].0.clone(), String::from_utf8_lossy(&base.stdout).into_owned())];
                    let d2 = fresh(&scratch, "in");
                    again.materialise(&d2);
                    let o2 = fresh(&scratch, "out");
                    let second = observe(&bins, &again, &d2, &o2, &Env::plain());
                    local.runs += 1;
                    if second.code == Some(0) {
                        local.idempotence_checked += 1;
                        if second.stdout != base.stdout {
                            let at = e2::first_diff(&base.stdout, &second.stdout).unwrap_or(0);
                            local.violations.push(Replay {
                                property: "C18".into(),
                                kind: "fixpoint-idempotence".into(),
                                seed,
                                cmd: cmd.clone(),
                                env_a: Env::plain(),
                                env_b: Env::plain(),
                                diff: Some(Diff { what: "simplifying the fixpoint result again changed it".into(), first_diff: at, excerpt_a: e2::excerpt(&base.stdout, at), excerpt_b: e2::excerpt(&second.stdout, at) }),
                                note: String::new(),
                                history: vec![],
                            });
                        }
                    } else {
                        local.idempotence_skipped_unparsable += 1;
                    }
                    let _ = fs::remove_dir_all(d2);
                    let _ = fs::remove_dir_all(o2);
                }
                if ci % 97 == 3 || (cmd.kind == "verify-dir" && ci % 5 == 0) {
                    let env = env_for(seed, ci, 1);
                    local.samples.push(serde_json::json!({
                        "command": cmd.id, "argv": cmd.args, "inputs": cmd.files.iter().map(|f| format!("{} ({} bytes)", f.0, f.1.len())).collect::<Vec<_>>(),
                        "environment_1": env, "exit": base.code, "stdout_bytes": base.stdout.len(), "output_files": base.files.iter().map(|f| format!("{} ({} bytes)", f.0, f.1.len())).collect::<Vec<_>>(),
                        "all_environments_agree": local.violations.is_empty(),
                    }));
                }
                let _ = fs::remove_dir_all(&in_dir);
                let mut t = tally.lock().unwrap();
                t.runs += local.runs;
                t.cmds += local.cmds;
                t.inproc_pairs += local.inproc_pairs;
                t.idempotence_checked += local.idempotence_checked;
                t.idempotence_skipped_unparsable += local.idempotence_skipped_unparsable;
                t.concurrent_pairs += local.concurrent_pairs;
                t.exit_nonzero_cmds += local.exit_nonzero_cmds;
                t.out_bytes += local.out_bytes;
                t.base_digests.extend(local.base_digests);
                t.nontrivial.extend(local.nontrivial);
                for (k, v) in local.by_kind {
                    *t.by_kind.entry(k).or_insert(0) += v;
                }
                for (k, v) in local.env_dims {
                    *t.env_dims.entry(k).or_insert(0) += v;
                }
                t.violations.extend(local.violations);
                if t.samples.len() < 6 {
                    t.samples.extend(local.samples);
                }
            }
        }).unwrap());
    }
    for h in handles {
        if h.join().is_err() {
            harness_error("a C18 worker thread panicked");
        }
    }
    let mut tally = Arc::try_unwrap(tally).ok().unwrap().into_inner().unwrap();

    // Phase 2 - same process: each slice of the workload runs as ONE process history through the hooks-on library,
    // every command twice in a row. A call must give what a fresh process gave (phase 1), whatever ran before it.
    if do_inproc {
        let wf = root.join("workload.json");
        fs::write(&wf, serde_json::to_string(&*cmds).unwrap()).unwrap();
        let bases: BTreeMap<usize, u64> = tally.base_digests.iter().cloned().collect();
        // how the commands are dealt into histories: (number of histories, reversed order)
        let rounds: Vec<(usize, bool)> = if thorough { vec![(workers.max(1), false), (4, true), (2, false)] } else { vec![(workers.max(1), false)] };
        let mut hs = vec![];
        for (slices, reversed) in rounds {
            for k in 0..slices {
                // groups of three neighbours in the list stay together, groups are dealt round-robin
                let mut idx: Vec<usize> = bases.keys().cloned().filter(|i| (i / 3) % slices == k).collect();
                if reversed {
                    idx.reverse();
                }
                let wf = wf.clone();
                hs.push(std::thread::spawn(move || {
                    let (lines, stray) = run_history_x(&wf, &idx);
                    (idx.clone(), lines, stray)
                }));
            }
        }
        for h in hs {
            let (idx, lines, stray) = h.join().unwrap();
            tally.history_slices += 1;
            if stray {
                tally.histories_inapplicable += 1;
                continue;
            }
            if lines.len() != idx.len() {
                let at = idx.get(lines.len()).cloned().unwrap_or(0);
                tally.violations.push(Replay { property: "C18".into(), kind: "same-process".into(), seed, cmd: cmds[at].clone(), env_a: Env::plain(), env_b: Env::plain(), diff: None, note: "the process running this history ended abnormally at this command".into(), history: idx[..lines.len()].iter().map(|i| cmds[*i].clone()).collect() });
                continue;
            }
            for (pos, l) in lines.iter().enumerate() {
                tally.inproc_pairs += 1;
                let base = bases[&l.i];
                let what = if !l.ok {
                    Some("the call failed in-process although a fresh process succeeds")
                } else if l.d1 != l.d2 {
                    Some("the second of two consecutive calls produced different output")
                } else if l.d1 != base {
                    Some("the call produced different output than a fresh process (earlier calls in this process left state behind)")
                } else {
                    None
                };
                if let Some(w) = what {
                    let history: Vec<Cmd> = idx[..pos].iter().map(|i| cmds[*i].clone()).collect();
                    tally.violations.push(Replay { property: "C18".into(), kind: "same-process".into(), seed, cmd: cmds[l.i].clone(), env_a: Env::plain(), env_b: Env::plain(), diff: Some(Diff { what: w.into(), first_diff: 0, excerpt_a: String::new(), excerpt_b: String::new() }), note: format!("{} earlier command(s) in the same process", history.len()), history });
                    break; // later commands of this history are suspect too; one report per history
                }
            }
        }
    }

    // report violations: minimise, write replay, confirm in a fresh process
    let replays_dir = verif_home().join("replays");
    let _ = fs::create_dir_all(&replays_dir);
    let known = crate::load_known();
    let mut new_violations = 0u64;
    let mut reported: BTreeSet<String> = BTreeSet::new();
    let mut known_lines = BTreeSet::new();
    let mut vs = tally.violations.clone();
    vs.sort_by_key(|v| (v.kind.clone(), v.cmd.files.iter().map(|f| f.1.len()).sum::<usize>(), v.cmd.id.clone()));
    for v in vs {
        let detail = format!("{} {}", v.cmd.id, v.diff.as_ref().map(|d| d.what.clone()).unwrap_or_default());
        if let Some(k) = known.iter().find(|k| k.property == "C18" && k.class == v.kind && detail.contains(&k.detail_contains)) {
            known_lines.insert(format!("KNOWN-FINDING: property=C18 {}", k.what));
            continue;
        }
        new_violations += 1;
        let family = format!("{}:{}", v.kind, v.cmd.kind);
        if !reported.insert(family) || reported.len() > 4 {
            continue;
        }
        let original = v.clone();
        let min = minimise(&bins, v, &scratch);
        let path = replays_dir.join(format!("C18-{}-{}-{}.json", seed, min.kind, sanitize(&min.cmd.id)));
        fs::write(&path, serde_json::to_string_pretty(&min).unwrap()).unwrap();
        // an environment-level violation should replay exactly; if the tree under test has a source of
        // nondeterminism the simulator does not own (its own threads, say), a few attempts may be needed
        let mut confirmed_after = 0;
        // (a hang costs its whole budget per attempt: one confirmation is enough there)
        for attempt in 1..=(if min.kind == "hang" { 1 } else { 6 }) {
            let confirm = std::process::Command::new(std::env::current_exe().unwrap()).args(["c18-replay", path.to_str().unwrap(), "--quiet"]).output().unwrap();
            if confirm.status.code() == Some(1) {
                confirmed_after = attempt;
                break;
            }
        }
        println!("violation kind={} command={}", min.kind, min.cmd.id);
        if let Some(d) = &min.diff {
            println!("  differs in {} at byte {}:\n    A: {}\n    B: {}", d.what, d.first_diff, d.excerpt_a, d.excerpt_b);
        }
        println!("  {}", min.note);
        if confirmed_after == 1 {
            println!("VIOLATION property=C18 replay={}", path.display());
        } else if confirmed_after > 1 {
            println!("  note: reproduced on attempt {confirmed_after} of 6: the tree under test has a source of nondeterminism the simulator does not own");
            println!("VIOLATION property=C18 replay={}", path.display());
        } else {
            // keep the observation itself: two runs of the same thing disagreed, which no environment we control explains
            fs::write(&path, serde_json::to_string_pretty(&original).unwrap()).unwrap();
            println!("  note: observed once and not reproduced in 6 replays; the observation (both outputs) is recorded in the replay file. The tree under test has a source of nondeterminism the simulator does not own");
            println!("VIOLATION property=C18 replay={}", path.display());
        }
    }
    for l in &known_lines {
        println!("{l}");
    }

    let wall = t0.elapsed().as_secs_f64();
    let evidence_path = args.get("evidence").map(PathBuf::from).unwrap_or_else(|| verif_home().join("evidence/C18.json"));
    let ev = serde_json::json!({
        "property_id": "C18", "tier": tier, "seed": seed, "level": "exploration", "wall_s": wall, "violations": new_violations,
        "coverage": {
            "evaluations": tally.runs,
            "distinct_nontrivial": tally.nontrivial.len(),
            "rule": "one evaluation = one run of the shipped anthem binary (hooks off, rebuilt from /repo) on a fixed command of the workload under one environment drawn from mix(seed, command, r): hash seed, directory order, CPU count, clock offset/jumps, heap/stack offsets, ASLR on/off, locale/TZ/TERM variables, stdin chunking; environment 0 is the native one and every other run of the command must match it byte for byte (exit status, stdout, stderr, every saved file). Distinct non-trivial = distinct (command, non-native environment) pairs whose command produces output.",
            "samples": tally.samples,
            "commands": tally.cmds,
            "commands_by_kind": tally.by_kind,
            "commands_exiting_nonzero_consistently": tally.exit_nonzero_cmds,
            "environments_per_command": envs + 1,
            "environment_dimensions_exercised_runs": tally.env_dims,
            "interposer_calls_answered": e2::interposer_totals(),
            "output_write_faults": {"runs_with_a_configured_fault": OUT_FAULT_RUNS.load(Ordering::Relaxed), "faults_fired": OUT_FAULTS_FIRED.load(Ordering::Relaxed), "runs_where_anthem_failed_cleanly": OUT_FAULT_FAILED_CLEANLY.load(Ordering::Relaxed), "errnos": "ENOSPC, EFBIG, EIO, EDQUOT on the k-th write() to a regular output file"},
            "crash_restart": {"earlier_run_killed_before_the_observed_run": CRASHES.load(Ordering::Relaxed), "of_which_killed_while_still_running": CRASHES_MID_RUN.load(Ordering::Relaxed)},
            "concurrent_same_command_pairs": tally.concurrent_pairs,
            "same_process_repetitions_via_hooks_on_library": tally.inproc_pairs,
            "histories_skipped_tree_prints_around_the_hooks": tally.histories_inapplicable,
            "fixpoint_side_invariant": {"results_resimplified_unchanged": tally.idempotence_checked, "skipped_result_not_reparsable": tally.idempotence_skipped_unparsable, "wall_budget_s_per_run": TIMEOUT_S, "note": "first sentence of C18 is only asserted on the workload's own formulas; it is not searched"},
            "output_bytes_compared_per_environment": tally.out_bytes,
            "runs_per_hour": (tally.runs as f64 / wall.max(0.001) * 3600.0) as u64,
            "real_vs_stub": {"real": ["the whole anthem binary (release, hooks off)", "std HashMap/RandomState, walkdir, the kernel"], "interposed (seeded)": ["getrandom", "readdir64", "sched_getaffinity/sysconf", "clock_gettime", "personality(ADDR_NO_RANDOMIZE)", "environment variables", "stdin pipe chunking"], "stub": []}
        },
        "assumptions": [
            "Sources of run-to-run variation are the ones the interposer and launcher own (DESIGN.md section 2, N3/N4); with ASLR left on the address layout is uncontrolled and only sampled.",
            "Sentence 1 of C18 (termination and idempotence for all formulas) is not decided by simulation; it is asserted only on the formulas of the fixed workload."
        ]
    });
    if let Some(p) = evidence_path.parent() {
        let _ = fs::create_dir_all(p);
    }
    fs::write(&evidence_path, serde_json::to_string_pretty(&ev).unwrap()).unwrap();
    println!("C18: {} commands, {} process runs ({:.0}/s), {} same-process repetitions, {} fixpoint results re-simplified, {} violation(s); evidence {}", tally.cmds, tally.runs, tally.runs as f64 / wall, tally.inproc_pairs, tally.idempotence_checked, new_violations, evidence_path.display());
    drop(scratch);
    std::process::exit(if new_violations > 0 { 1 } else { 0 });
}

fn sanitize(s: &str) -> String {
    s.chars().map(|c| if c.is_ascii_alphanumeric() || c == '-' { c } else { '_' }).collect::<String>().chars().take(80).collect()
}

/// Reduce environment B towards A one dimension at a time, then delta-debug the input by lines.
fn minimise(bins: &Binaries, mut r: Replay, scratch: &Mutex<Scratch>) -> Replay {
    if r.kind == "same-process" {
        // which earlier commands matter? delta-debug the history
        let mut tries = 0;
        let mut hist = r.history.clone();
        if same_process_fails(bins, &r.cmd, &[], scratch).is_some() {
            hist.clear();
        }
        let mut chunk = (hist.len() / 2).max(1);
        while !hist.is_empty() && tries < 40 {
            let mut start = 0;
            let mut progressed = false;
            while start < hist.len() && tries < 40 {
                let mut cand = hist[..start].to_vec();
                cand.extend_from_slice(&hist[(start + chunk).min(hist.len())..]);
                tries += 1;
                if same_process_fails(bins, &r.cmd, &cand, scratch).is_some() {
                    hist = cand;
                    progressed = true;
                } else {
                    start += chunk;
                }
            }
            if chunk == 1 && !progressed {
                break;
            }
            if chunk > 1 {
                chunk /= 2;
            }
        }
        r.note = format!("{}; history reduced to {} command(s) with {} re-runs: {:?}", r.note, hist.len(), tries, hist.iter().map(|c| c.id.clone()).collect::<Vec<_>>());
        r.history = hist;
        return r;
    }
    if r.kind != "environment" {
        return r;
    }
    let mut kept = vec![];
    for dim in Env::DIMS {
        let cand = r.env_b.without(dim);
        if cand == r.env_b {
            continue;
        }
        match differs(bins, &r.cmd, &r.env_a, &cand, scratch) {
            Some(d) => {
                r.env_b = cand;
                r.diff = Some(d);
            }
            None => kept.push(*dim),
        }
    }
    // input reduction: drop lines of the largest input while the difference persists
    let mut tries = 0;
    if let Some((fi, _)) = r.cmd.files.iter().enumerate().max_by_key(|(_, f)| f.1.len()) {
        let mut lines: Vec<String> = r.cmd.files[fi].1.lines().map(str::to_string).collect();
        let mut chunk = (lines.len() / 2).max(1);
        while chunk >= 1 && tries < 120 && lines.len() > 1 {
            let mut start = 0;
            let mut progressed = false;
            while start < lines.len() && tries < 120 {
                let mut cand: Vec<String> = lines[..start].to_vec();
                cand.extend_from_slice(&lines[(start + chunk).min(lines.len())..]);
                let mut c = r.cmd.clone();
                c.files[fi].1 = cand.join("\n") + "\n";
                tries += 1;
                if let Some(d) = differs(bins, &c, &r.env_a, &r.env_b, scratch) {
                    lines = cand;
                    r.cmd = c;
                    r.diff = Some(d);
                    progressed = true;
                } else {
                    start += chunk;
                }
            }
            if chunk == 1 && !progressed {
                break;
            }
            if chunk > 1 {
                chunk /= 2;
            }
        }
    }
    r.note = format!("{}; environment dimensions that must differ: {:?}; input reduced with {} re-runs", r.note, kept, tries);
    r
}

pub fn replay(args: &Args) {
    let path = match args.pos.first() {
        Some(p) => p.clone(),
        None => harness_error("usage: vcheck c18-replay FILE"),
    };
    let r: Replay = serde_json::from_str(&fs::read_to_string(&path).unwrap_or_else(|e| harness_error(&format!("{path}: {e}")))).unwrap_or_else(|e| harness_error(&format!("{path}: {e}")));
    let bins = Binaries::locate();
    let scratch = Mutex::new(Scratch::new("c18r"));
    let quiet = args.get("quiet").is_some();
    let found: Option<String> = match r.kind.as_str() {
        "environment" => differs(&bins, &r.cmd, &r.env_a, &r.env_b, &scratch).map(|d| format!("differs in {} at byte {}: A `{}` B `{}`", d.what, d.first_diff, d.excerpt_a, d.excerpt_b)),
        "same-process" => same_process_fails(&bins, &r.cmd, &r.history, &scratch),
        "hang" => {
            let in_dir = fresh(&scratch, "in");
            r.cmd.materialise(&in_dir);
            let o = fresh(&scratch, "out");
            let x = observe(&bins, &r.cmd, &in_dir, &o, &r.env_a);
            x.timed_out.then(|| format!("no result within {TIMEOUT_S}s"))
        }
        "fixpoint-idempotence" => {
            let in_dir = fresh(&scratch, "in");
            r.cmd.materialise(&in_dir);
            let o = fresh(&scratch, "out");
            let first = observe(&bins, &r.cmd, &in_dir, &o, &Env::plain());
            let mut again = r.cmd.clone();
            again.files = vec![(again.files[0].0.clone(), String::from_utf8_lossy(&first.stdout).into_owned())];
            let d2 = fresh(&scratch, "in");
            again.materialise(&d2);
            let second = observe(&bins, &again, &d2, &o, &Env::plain());
            (second.code == Some(0) && second.stdout != first.stdout).then(|| "simplifying the fixpoint result again changed it".to_string())
        }
        other => harness_error(&format!("unknown replay kind {other}")),
    };
    match found {
        Some(msg) => {
            if !quiet {
                println!("replayed {path}: {msg}");
                println!("VIOLATION property=C18 replay={path}");
            }
            std::process::exit(1);
        }
        None => {
            if !quiet {
                println!("replayed {path}: the recorded {} violation did not occur", r.kind);
            }
            std::process::exit(0);
        }
    }
}
