//! Materialise a case on disk and run the real `anthem::main()` under the simulator.
use crate::gen::Case;
use anthem_simrt::plan::{Plan, content_key};
use anthem_simrt::sched::{ExecResult, ExecStatus, SchedSpec, run_execution};
use anthem_simrt::state::Scenario;
use std::collections::BTreeMap;
use std::fs;
use std::path::{Path, PathBuf};

pub struct Scratch {
    pub root: PathBuf,
    counter: u64,
}

impl Scratch {
    pub fn new(tag: &str) -> Scratch {
        let base = std::env::var("VERIF_SCRATCH").map(PathBuf::from).unwrap_or_else(|_| {
            if Path::new("/dev/shm").is_dir() { PathBuf::from("/dev/shm") } else { std::env::temp_dir() }
        });
        // scratch left behind by processes that were killed (their Drop never ran)
        if let Ok(rd) = fs::read_dir(&base) {
            for e in rd.filter_map(|e| e.ok()) {
                let name = e.file_name().to_string_lossy().into_owned();
                if let Some(rest) = name.strip_prefix("vcheck-") {
                    if let Some(pid) = rest.split('-').next().and_then(|p| p.parse::<u32>().ok()) {
                        if !Path::new(&format!("/proc/{pid}")).exists() {
                            let _ = fs::remove_dir_all(e.path());
                        }
                    }
                }
            }
        }
        let root = base.join(format!("vcheck-{}-{tag}", std::process::id()));
        let _ = fs::remove_dir_all(&root);
        fs::create_dir_all(&root).expect("create scratch dir");
        Scratch { root, counter: 0 }
    }

    pub fn fresh_dir(&mut self, prefix: &str) -> PathBuf {
        self.counter += 1;
        let d = self.root.join(format!("{prefix}{}", self.counter));
        let _ = fs::remove_dir_all(&d);
        fs::create_dir_all(&d).expect("create scratch subdir");
        d
    }
}

impl Drop for Scratch {
    fn drop(&mut self) {
        let _ = fs::remove_dir_all(&self.root);
    }
}

/// Inputs of a case written to disk once, plus its reference emission.
pub struct Prepared {
    pub in_dir: PathBuf,
    /// (file name, bytes) of every problem `--no-proof-search --save-problems` wrote, sorted by name.
    pub reference: Vec<(String, Vec<u8>)>,
    /// stdout of the reference run (warnings).
    pub reference_stdout: Vec<u8>,
    pub reference_status: ExecStatus,
}

fn base_argv(case: &Case, in_dir: &Path) -> (Vec<String>, Vec<String>) {
    let mut head = vec!["anthem".to_string(), "verify".to_string()];
    head.extend(case.options.iter().cloned());
    head.extend(case.flags.iter().cloned());
    let files = case.file_args.iter().map(|f| in_dir.join(f).to_string_lossy().into_owned()).collect();
    (head, files)
}

/// Only the problem files of a save directory (anything else anthem may put there - a listing, a lock, a log - is
/// not a problem and is not handed to a prover).
pub fn read_problem_files(dir: &Path) -> Vec<(String, Vec<u8>)> {
    read_dir_files(dir).into_iter().filter(|(n, _)| n.ends_with(".p")).collect()
}

pub fn read_dir_files(dir: &Path) -> Vec<(String, Vec<u8>)> {
    let mut v: Vec<(String, Vec<u8>)> = fs::read_dir(dir)
        .map(|rd| {
            rd.filter_map(|e| e.ok())
                .map(|e| (e.file_name().to_string_lossy().into_owned(), fs::read(e.path()).unwrap_or_default()))
                .collect()
        })
        .unwrap_or_default();
    v.sort();
    v
}

fn body() -> Result<(), String> {
    anthem::main().map_err(|e| format!("{e:#}"))
}

/// Use the shipped binary instead of the linked library for reference emissions (E2-only mode:
/// the linked library may be stale when the hooks-on build of the current tree failed).
pub static REFERENCE_VIA_BINARY: std::sync::atomic::AtomicBool = std::sync::atomic::AtomicBool::new(false);

pub fn prepare(case: &Case, scratch: &mut Scratch) -> Prepared {
    if REFERENCE_VIA_BINARY.load(std::sync::atomic::Ordering::SeqCst) {
        return prepare_via_binary(case, scratch);
    }
    let in_dir = scratch.fresh_dir("in");
    for (name, content) in &case.files {
        let p = in_dir.join(name);
        if let Some(parent) = p.parent() {
            let _ = fs::create_dir_all(parent);
        }
        fs::write(p, content).expect("write input file");
    }
    let out = scratch.fresh_dir("ref");
    let (mut argv, files) = base_argv(case, &in_dir);
    argv.push("--no-proof-search".into());
    argv.push("--save-problems".into());
    argv.push(out.to_string_lossy().into_owned());
    argv.extend(files);
    let r = run_execution(
        Scenario { argv, cpus: 1, plan: Plan::quiet() },
        SchedSpec::Calm { overrides: vec![] },
        1_000_000,
        false,
        body,
    );
    let reference = read_problem_files(&out);
    let _ = fs::remove_dir_all(&out);
    Prepared { in_dir, reference, reference_stdout: r.sim.stdout, reference_status: r.status }
}

fn prepare_via_binary(case: &Case, scratch: &mut Scratch) -> Prepared {
    let bins = crate::e2::Binaries::locate();
    let in_dir = scratch.fresh_dir("in");
    for (name, content) in &case.files {
        let p = in_dir.join(name);
        if let Some(parent) = p.parent() {
            let _ = fs::create_dir_all(parent);
        }
        fs::write(p, content).expect("write input file");
    }
    let out = scratch.fresh_dir("ref");
    let (argv, files) = base_argv(case, &in_dir);
    let mut args: Vec<String> = argv[1..].to_vec();
    args.push("--no-proof-search".into());
    args.push("--save-problems".into());
    args.push(out.to_string_lossy().into_owned());
    args.extend(files);
    let status = match crate::e2::run_anthem(&bins, &args, &in_dir, None, &crate::e2::Env::plain(), &[], 120) {
        Ok(p) if p.code == Some(0) => ExecStatus::Returned,
        Ok(p) => ExecStatus::MainErr(String::from_utf8_lossy(&p.stderr).into_owned()),
        Err(e) => ExecStatus::MainErr(e.to_string()),
    };
    let reference = read_problem_files(&out);
    let _ = fs::remove_dir_all(&out);
    Prepared { in_dir, reference, reference_stdout: vec![], reference_status: status }
}

pub struct Run {
    pub result: ExecResult,
    /// Files the run itself saved (only with --save-problems).
    pub saved: Option<Vec<(String, Vec<u8>)>>,
}

pub fn run_case(case: &Case, prep: &Prepared, spec: SchedSpec, max_steps: usize, keep_log: bool, scratch: &mut Scratch) -> Run {
    let (mut argv, files) = base_argv(case, &prep.in_dir);
    argv.extend(case.run_flags.iter().cloned());
    let out = if case.save_problems {
        let d = scratch.fresh_dir("out");
        if case.stale_out {
            for (i, (n, c)) in prep.reference.iter().enumerate() {
                let mut stale = if i % 2 == 0 { b"% left behind by an earlier task\n".to_vec() } else { vec![] };
                stale.extend_from_slice(c);
                stale.extend_from_slice(b"tff(stale_tail, axiom, $false).\n");
                let _ = fs::write(d.join(n), stale);
            }
        }
        argv.push("--save-problems".into());
        argv.push(d.to_string_lossy().into_owned());
        Some(d)
    } else {
        None
    };
    argv.extend(files);
    let result = run_execution(Scenario { argv, cpus: case.cpus, plan: case.plan.clone() }, spec, max_steps, keep_log, body);
    let saved = out.map(|d| {
        let v = read_problem_files(&d);
        let _ = fs::remove_dir_all(&d);
        v
    });
    Run { result, saved }
}

/// Index of the reference problems by content.
pub fn by_content(reference: &[(String, Vec<u8>)]) -> BTreeMap<String, Vec<usize>> {
    let mut m: BTreeMap<String, Vec<usize>> = BTreeMap::new();
    for (i, (_, b)) in reference.iter().enumerate() {
        m.entry(content_key(b)).or_default().push(i);
    }
    m
}
