//! C20: the role of each input file depends only on its extension and on argument / file-name order.
//! The simulator owns the directory enumeration order (seeded readdir) and the creation order of the
//! files; a small reference model predicts the roles; the saved problems must equal those of a
//! canonical invocation that passes exactly the predicted files explicitly.
use crate::corpus::{self, Task};
use crate::e2::{self, Binaries, Env};
use crate::exec::{Scratch, read_dir_files};
use crate::{Args, harness_error, seed_from, verif_home};
use anthem_simrt::plan::{Rng, mix2};
use serde::{Deserialize, Serialize};
use std::collections::{BTreeMap, BTreeSet};
use std::fs;
use std::path::{Path, PathBuf};
use std::sync::atomic::{AtomicU64, Ordering};
use std::sync::{Arc, Mutex};
use std::time::Instant;

#[derive(Clone, Debug, Serialize, Deserialize)]
pub struct FileEntry {
    /// Path relative to the scenario root.
    pub path: String,
    pub content: String,
    /// What the generator meant this file to be (informational): lp1, lp2, lp3, spec, ug, po, junk.
    pub meant: String,
    /// A symbolic link to this other scenario file instead of a regular file (only ever under a name without a role).
    #[serde(default)]
    pub link_to: Option<String>,
}

#[derive(Clone, Debug, Serialize, Deserialize)]
pub struct Scenario {
    pub task_id: String,
    pub equivalence: String,
    /// verify options other than the files (equivalence, direction, ... ) without save/no-proof-search.
    pub options: Vec<String>,
    pub files: Vec<FileEntry>,
    /// Order in which the files are created on disk (indices into `files`).
    pub creation_order: Vec<usize>,
    /// Arguments (relative paths of files or directories) in order.
    pub args: Vec<String>,
    pub marked: bool,
    /// Output directory given as a path relative to the working directory (None = an absolute scratch path).
    #[serde(default)]
    pub out_rel: Option<String>,
    /// Boolean flags that sit between the file arguments in the layout invocation (position, flag); the canonical
    /// invocation keeps every option in front. Files are recognised wherever they appear among the arguments.
    #[serde(default)]
    pub interleaved: Vec<(usize, String)>,
}

#[derive(Clone, Debug, Default, Serialize, Deserialize, PartialEq, Eq)]
pub struct Roles {
    pub programs: Vec<String>,
    pub specification: Option<String>,
    pub user_guide: Option<String>,
    pub proof_outline: Option<String>,
}

/// Extension as the statement reads it: the text after the last dot of the file name, where a leading dot
/// does not count (".x.lp" is a .lp file; "x.LP", "x.lp~", "lp" are not).
fn extension(name: &str) -> Option<&str> {
    let base = name.rsplit('/').next().unwrap_or(name);
    let trimmed = base.strip_prefix('.').unwrap_or(base);
    let idx = trimmed.rfind('.')?;
    let ext = &trimmed[idx + 1..];
    if ext.is_empty() && idx + 1 == trimmed.len() {
        return Some("");
    }
    Some(ext)
}

/// An argument as the path it names relative to the scenario root ("" = the root itself).
pub fn norm(arg: &str) -> String {
    let mut a = arg;
    while let Some(r) = a.strip_prefix("./") {
        a = r;
    }
    let a = a.trim_end_matches('/');
    if a == "." { String::new() } else { a.to_string() }
}

/// Reference model: arguments in order; a directory contributes its regular files depth-first,
/// the entries of each directory in byte-wise file-name order.
pub fn model(s: &Scenario) -> Roles {
    fn walk(prefix: &str, files: &[FileEntry], out: &mut Vec<String>) {
        // children of `prefix` (a directory path without trailing slash)
        let mut names: BTreeSet<String> = BTreeSet::new();
        let pre = if prefix.is_empty() { String::new() } else { format!("{prefix}/") };
        for f in files {
            if let Some(rest) = f.path.strip_prefix(&pre) {
                names.insert(rest.split('/').next().unwrap().to_string());
            }
        }
        for n in names {
            let child = format!("{pre}{n}");
            if files.iter().any(|f| f.path == child) {
                out.push(child);
            } else {
                walk(&child, files, out);
            }
        }
    }
    let mut ordered = vec![];
    for a in &s.args {
        let a = norm(a);
        if s.files.iter().any(|f| f.path == a) {
            ordered.push(a);
        } else {
            walk(&a, &s.files, &mut ordered);
        }
    }
    let mut r = Roles::default();
    let mut specs = vec![];
    let mut ugs = vec![];
    let mut pos = vec![];
    for p in ordered {
        match extension(&p) {
            Some("lp") => r.programs.push(p),
            Some("spec") => specs.push(p),
            Some("ug") => ugs.push(p),
            Some("po") => pos.push(p),
            _ => {}
        }
    }
    r.specification = specs.first().cloned();
    r.user_guide = ugs.first().cloned();
    r.proof_outline = pos.first().cloned();
    r
}

/// The files the model expects anthem to use, in canonical explicit order, or None if a required role is empty.
pub fn canonical_files(s: &Scenario, roles: &Roles) -> Option<Vec<(String, String)>> {
    let content = |p: &String| s.files.iter().find(|f| &f.path == p).map(|f| f.content.clone()).unwrap_or_default();
    let mut v = vec![];
    if s.equivalence == "strong" {
        if roles.programs.len() < 2 {
            return None;
        }
        v.push(("c1.lp".to_string(), content(&roles.programs[0])));
        v.push(("c2.lp".to_string(), content(&roles.programs[1])));
    } else {
        match &roles.specification {
            Some(spec) => {
                let prog = roles.programs.first()?;
                v.push(("c1.lp".to_string(), content(prog)));
                v.push(("c.spec".to_string(), content(spec)));
            }
            None => {
                if roles.programs.len() < 2 {
                    return None;
                }
                v.push(("c1.lp".to_string(), content(&roles.programs[0])));
                v.push(("c2.lp".to_string(), content(&roles.programs[1])));
            }
        }
        let ug = roles.user_guide.as_ref()?;
        v.push(("c.ug".to_string(), content(ug)));
        if let Some(po) = &roles.proof_outline {
            v.push(("c.po".to_string(), content(po)));
        }
    }
    Some(v)
}

const JUNK: &[(&str, &str)] = &[
    ("notes.txt", "this is not a program ((( :- \n"),
    ("README", "p :- q. # plain text\n"),
    ("prog.LP", "broken((( .\n"),
    ("x.lp~", "broken((( .\n"),
    ("y.lp.bak", "broken((( .\n"),
    ("z.spec.txt", "spec: ((( .\n"),
    (".hidden", "broken((( .\n"),
    ("data.ugx", "input: ((( .\n"),
    ("po", "lemma: ((( .\n"),
    ("lp", "broken((( .\n"),
    ("w.lpx", "broken((( .\n"),
    ("v.po.old", "lemma: ((( .\n"),
];

fn stem(rng: &mut Rng, upper_ok: bool) -> String {
    let len = 1 + rng.below(6) as usize;
    let mut s = String::new();
    for i in 0..len {
        let c = (b'a' + rng.below(26) as u8) as char;
        s.push(if upper_ok && i == 0 && rng.pct(50) { c.to_ascii_uppercase() } else { c });
    }
    match rng.below(6) {
        0 => s.push_str(&format!("{:02}", rng.below(100))), // fixed-width digits: byte order = natural order
        1 => {
            s.push('.');
            s.push((b'a' + rng.below(26) as u8) as char);
        }
        2 => s.insert(0, '.'), // hidden
        _ => {}
    }
    s
}

pub fn draw(seed: u64, i: u64, tasks: &[Task], thorough: bool) -> Scenario {
    let mut rng = Rng::new(mix2(seed ^ 0xc20, i));
    let task = loop {
        let t = rng.pick(tasks);
        if t.weight > 6000 && !(thorough && rng.pct(10)) {
            continue;
        }
        break t;
    };
    let equivalence = if task.options.iter().any(|o| o == "strong" || o == "--equivalence=strong") { "strong" } else { "external" }.to_string();
    let mut options: Vec<String> = task.options.clone();
    if !task.has_direction && rng.pct(40) {
        options.push("--direction".into());
        options.push(rng.pick(&["universal", "forward", "backward"]).to_string());
    }
    if rng.pct(40) {
        options.push("--decomposition".into());
        options.push(rng.pick(&["independent", "sequential"]).to_string());
    }
    if rng.pct(20) {
        options.push("--no-simplify".into());
    }
    if rng.pct(20) {
        options.push("--no-eq-break".into());
    }
    if equivalence == "strong" && rng.pct(15) {
        options.push("--formula-representation".into());
        options.push("mu".into());
    }

    // role files of the task
    let mut pool: Vec<(String, String, String)> = vec![]; // (meant, ext, content)
    let mut lp_n = 0;
    let marked = equivalence == "strong" && rng.pct(50);
    for f in &task.files {
        let content = fs::read_to_string(task.dir.join(f)).unwrap_or_default();
        let ext = extension(f).unwrap_or("").to_string();
        match ext.as_str() {
            "lp" => {
                lp_n += 1;
                let mut c = content;
                if marked {
                    if !c.ends_with('\n') && !c.is_empty() {
                        c.push('\n');
                    }
                    c.push_str(if lp_n == 1 { "zzfirst.\n" } else { "zzsecond.\n" });
                }
                pool.push((format!("lp{lp_n}"), ext, c));
            }
            "spec" | "ug" | "po" => pool.push((ext.clone(), ext, content)),
            _ => {}
        }
    }
    // strong equivalence ignores specifications, user guides and proof outlines: valid ones lying around or
    // named among the arguments must not change anything ("wherever they appear")
    if equivalence == "strong" && rng.pct(30) {
        for (ext, content) in [("spec", "spec: q <-> t.\nspec: p.\n"), ("ug", "input: t/0.\noutput: p/0.\noutput: q/0.\n"), ("po", "lemma: forall X (q(X) -> p(X)).\n")] {
            if rng.pct(70) {
                pool.push((format!("idle-{ext}"), ext.to_string(), content.to_string()));
            }
        }
    }
    let has_spec = pool.iter().any(|p| p.0 == "spec");
    // missing-role cases
    if rng.pct(8) {
        let victims: Vec<usize> = pool.iter().enumerate().filter(|(_, p)| p.0 == "ug" || p.0 == "lp2" || (p.0 == "lp1" && lp_n == 1)).map(|(i, _)| i).collect();
        if !victims.is_empty() {
            let v = *rng.pick(&victims);
            pool.remove(v);
        }
    }
    // a third program, anywhere (only unambiguous when there is no .spec)
    if !has_spec && rng.pct(30) {
        // a third program: one of its own, a copy of the first, an empty file, or comments only
        let c = match rng.below(5) {
            // (a file that is not even mini-gringo: it has no role unless the order gives it one)
            4 => "#const n = 3.\n#show p/1.\np(X) :- X = #count { Y : q(Y) }.\n".to_string(),
            0 => "zzthird(1).\nzzthird(X) :- zzthird(X), X > 5.\n".to_string(),
            1 => pool.iter().find(|p| p.0 == "lp1").map(|p| p.2.clone()).unwrap_or_else(|| "p.\n".into()),
            2 => String::new(),
            _ => "% nothing but a comment\n".to_string(),
        };
        pool.push(("lp3".into(), "lp".into(), c));
    }

    // rarely: a crowd of further programs (dozens of files in play; none of them can have a role unless it sorts first)
    if !has_spec && rng.pct(3) {
        for k in 0..(30 + rng.below(40)) {
            pool.push((format!("crowd{k}"), "lp".into(), format!("crowd{k}(1).\n")));
        }
    }
    // names
    let upper_ok = rng.pct(15);
    let mut used = BTreeSet::new();
    let mut named: Vec<(String, String, String)> = vec![]; // (meant, file name, content)
    let mut last_stem: Option<String> = None;
    for (meant, ext, content) in pool {
        let name = loop {
            // sometimes a name that extends the previous one (a.lp / a.1.lp / a.lp.lp): prefixes sort first byte-wise
            let st = match (&last_stem, rng.below(5)) {
                (Some(p), 0) => format!("{p}.{}", rng.below(10)),
                (Some(p), 1) => format!("{p}.lp"),
                (Some(p), 2) => format!("{p}{}", (b'a' + rng.below(26) as u8) as char),
                _ => stem(&mut rng, upper_ok),
            };
            last_stem = Some(st.clone());
            let n = format!("{st}.{ext}");
            if n != format!(".{ext}") && used.insert(n.to_ascii_lowercase()) {
                break n;
            }
        };
        named.push((meant, name, content));
    }
    for _ in 0..rng.below(4) {
        let (n, c) = *rng.pick(JUNK);
        if used.insert(n.to_ascii_lowercase()) {
            named.push(("junk".into(), n.to_string(), c.to_string()));
        }
    }

    // placement: explicit at top level, or inside one of up to three directories (possibly nested)
    let n_dirs = rng.below(4) as usize;
    let mut dirs: Vec<String> = vec![];
    while dirs.len() < n_dirs {
        let mut d: String = (0..1 + rng.below(4)).map(|_| (b'a' + rng.below(26) as u8) as char).collect();
        d.push_str("dir");
        if rng.pct(15) {
            d.insert(0, '.');
        }
        if used.insert(d.clone()) {
            dirs.push(d);
        }
    }
    let mut files = vec![];
    let mut args: Vec<String> = vec![];
    let mut dir_used = vec![false; dirs.len()];
    for (meant, name, content) in named {
        let junk = meant == "junk";
        let choice = rng.below((1 + dirs.len()) as u64) as usize;
        if choice == 0 || dirs.is_empty() {
            // top level: role files are named explicitly; junk is either named explicitly or just lies around
            if !junk || rng.pct(50) {
                args.push(name.clone());
            }
            files.push(FileEntry { path: name, content, meant, link_to: None });
        } else {
            let d = &dirs[choice - 1];
            dir_used[choice - 1] = true;
            let sub = if rng.pct(25) { format!("{d}/{}{}sub", if rng.pct(15) { "." } else { "" }, (b'a' + rng.below(26) as u8) as char) } else { d.clone() };
            files.push(FileEntry { path: format!("{sub}/{name}"), content, meant, link_to: None });
        }
    }
    // two role files may carry the same file name when they live in different directories
    if rng.pct(20) {
        let idx: Vec<usize> = files.iter().enumerate().filter(|(_, f)| f.meant == "lp1" || f.meant == "lp2").map(|(i, _)| i).collect();
        if idx.len() == 2 {
            let dir_of = |p: &str| p.rfind('/').map(|k| p[..k].to_string()).unwrap_or_default();
            let (a, b) = (files[idx[0]].path.clone(), files[idx[1]].path.clone());
            if dir_of(&a) != dir_of(&b) {
                let base = a.rsplit('/').next().unwrap().to_string();
                let d = dir_of(&b);
                let new_path = if d.is_empty() { base } else { format!("{d}/{base}") };
                if !files.iter().any(|f| f.path == new_path) {
                    for arg in args.iter_mut() {
                        if *arg == b {
                            *arg = new_path.clone();
                        }
                    }
                    files[idx[1]].path = new_path;
                }
            }
        }
    }
    for (d, u) in dirs.iter().zip(&dir_used) {
        if *u {
            args.push(d.clone());
        }
    }
    // argument permutation
    for k in (1..args.len()).rev() {
        let j = rng.below(k as u64 + 1) as usize;
        args.swap(k, j);
    }
    // the same program named twice: "the first in argument order ... and the next" is a statement about the list
    // of arguments, so a repeated path counts twice (only for programs without a .spec, where both roles are .lp roles)
    if !has_spec && rng.pct(8) {
        let lps: Vec<String> = args.iter().filter(|a| files.iter().any(|f: &FileEntry| &f.path == *a && f.path.ends_with(".lp") && f.meant != "junk")).cloned().collect();
        if !lps.is_empty() {
            let dup = rng.pick(&lps).clone();
            let at = rng.below(args.len() as u64 + 1) as usize;
            args.insert(at, dup);
        }
    }
    // spellings of the same path; sometimes the whole scenario root is the only argument
    if rng.pct(6) {
        args = vec![rng.pick(&[".", "./", "././"]).to_string()];
    } else {
        for a in args.iter_mut() {
            let is_dir = !files.iter().any(|f: &FileEntry| &f.path == a);
            match rng.below(6) {
                0 => *a = format!("./{a}"),
                1 if is_dir => a.push('/'),
                2 if is_dir => *a = format!("./{a}/"),
                _ => {}
            }
        }
    }
    let mut creation_order: Vec<usize> = (0..files.len()).collect();
    for k in (1..creation_order.len()).rev() {
        let j = rng.below(k as u64 + 1) as usize;
        creation_order.swap(k, j);
    }
    // sometimes the output directory lives next to the inputs under a name that is a prefix of an input's name
    let mut out_rel = None;
    if rng.pct(20) {
        let cands: Vec<String> = files.iter().filter(|f| f.meant != "junk").map(|f| f.path.split('/').next().unwrap().to_string()).collect();
        if !cands.is_empty() {
            let c = rng.pick(&cands).clone();
            let k = 1 + rng.below(c.len() as u64) as usize;
            let mut name: String = c.chars().take(k).collect();
            name = name.trim_end_matches('.').to_string();
            let clash = name.is_empty() || name == "." || name == ".." || files.iter().any(|f| f.path == name || f.path.starts_with(&format!("{name}/")));
            if !clash {
                out_rel = Some(match rng.below(3) { 0 => format!("./{name}"), 1 => format!("{name}/"), _ => name });
            }
        }
    }
    let mut interleaved = vec![];
    for flag in ["--bypass-tightness", "--no-simplify", "--no-eq-break"] {
        if options.iter().any(|o| o == flag) && rng.pct(35) {
            interleaved.push((rng.below(args.len() as u64 + 1) as usize, flag.to_string()));
        }
    }
    let mut s = Scenario { task_id: task.id.clone(), equivalence, options, files, creation_order, args, marked, out_rel, interleaved };
    decorate(&mut s, &mut Rng::new(mix2(seed ^ 0xc20a, i)));
    s
}

/// Later additions to the layout generator, drawn from a stream of their own so that scenario i of a seed keeps the
/// layout it always had and is only decorated.
fn decorate(s: &mut Scenario, rng: &mut Rng) {
    let root_only = s.args.len() == 1 && norm(&s.args[0]).is_empty();
    // (1) sibling directories (or a file and a directory) whose names extend each other by a character that sorts
    // below '/': per directory level `v1` comes before `v1.1` and `choice` before `choice.lp`, as full paths it is
    // the other way round. "Inside a directory, in file-name order" is read per level (the anchored mechanism).
    let lp = |s: &Scenario, m: &str| s.files.iter().position(|f| f.meant == m && f.link_to.is_none());
    if let (Some(i1), Some(i2), true) = (lp(s, "lp1"), lp(s, "lp2"), rng.pct(7)) {
        let d: String = format!("{}nest", (b'a' + rng.below(26) as u8) as char);
        let st: String = (0..1 + rng.below(3)).map(|_| (b'a' + rng.below(26) as u8) as char).collect();
        let taken = s.files.iter().any(|f| f.path == d || f.path.starts_with(&format!("{d}/"))) || s.out_rel.as_deref().map(norm).as_deref() == Some(d.as_str());
        if !taken {
            let base = |p: &str| p.rsplit('/').next().unwrap().to_string();
            let (old1, old2) = (s.files[i1].path.clone(), s.files[i2].path.clone());
            let (b1, b2) = (base(&old1), base(&old2));
            let (first, second) = if rng.pct(50) { (i1, i2) } else { (i2, i1) };
            let (bf, bs) = if first == i1 { (b1, b2) } else { (b2, b1) };
            if rng.pct(60) {
                let ext = rng.pick(&[".1", "-old", "+x", ",v", " copy", ".lp"]);
                s.files[first].path = format!("{d}/{st}/{bf}");
                s.files[second].path = format!("{d}/{st}{ext}/{bs}");
            } else {
                // a directory `st` and a file `st.lp` side by side
                s.files[first].path = format!("{d}/{st}/{bf}");
                s.files[second].path = format!("{d}/{st}.lp");
            }
            if !root_only {
                s.args.retain(|a| { let n = norm(a); n != old1 && n != old2 });
                // a directory that has lost its last file does not exist any more
                let files = s.files.clone();
                s.args.retain(|a| { let n = norm(a); files.iter().any(|f| f.path == n || f.path.starts_with(&format!("{n}/"))) });
                let at = rng.below(s.args.len() as u64 + 1) as usize;
                s.args.insert(at, if rng.pct(30) { format!("./{d}/") } else { d.clone() });
                s.interleaved.iter_mut().for_each(|(pos, _)| *pos = (*pos).min(s.args.len()));
            }
        }
    }
    // (2) symbolic links under names without a role that point at role files: a link called `0-notes.txt` is not a
    // program, whatever it points to
    if rng.pct(12) {
        let targets: Vec<String> = s.files.iter().filter(|f| f.meant != "junk" && f.link_to.is_none()).map(|f| f.path.clone()).collect();
        if !targets.is_empty() {
            for _ in 0..1 + rng.below(2) {
                let name = rng.pick(&["0-notes.txt", "0link", "alias.bak", "zz-link.lpx", "Link.txt", "a.lp~"]).to_string();
                let target = rng.pick(&targets).clone();
                // next to the target's top-level directory or at top level
                let dirs: Vec<String> = s.files.iter().filter_map(|f| f.path.rfind('/').map(|k| f.path[..k].to_string())).collect();
                let path = if !dirs.is_empty() && rng.pct(50) { format!("{}/{name}", rng.pick(&dirs)) } else { name.clone() };
                if s.files.iter().any(|f| f.path == path || f.path.starts_with(&format!("{path}/"))) || s.out_rel.as_deref().map(norm).as_deref() == Some(path.as_str()) {
                    continue;
                }
                let top = !path.contains('/');
                s.files.push(FileEntry { path: path.clone(), content: String::new(), meant: "junk".into(), link_to: Some(target) });
                s.creation_order.push(s.files.len() - 1);
                if top && !root_only && rng.pct(70) {
                    let at = rng.below(s.args.len() as u64 + 1) as usize;
                    s.args.insert(at, path);
                }
            }
        }
    }
}

fn materialise(s: &Scenario, root: &Path, reverse: bool) {
    let order: Vec<usize> = if reverse { s.creation_order.iter().rev().cloned().collect() } else { s.creation_order.clone() };
    for i in order {
        let f = &s.files[i];
        let p = root.join(&f.path);
        if let Some(parent) = p.parent() {
            let _ = fs::create_dir_all(parent);
        }
        match &f.link_to {
            Some(target) => std::os::unix::fs::symlink(root.join(target), p).expect("create scenario symlink"),
            None => fs::write(p, &f.content).expect("write scenario file"),
        }
    }
}

#[derive(Clone, Debug, PartialEq, Eq)]
pub struct Out {
    pub ok: bool,
    pub files: Vec<(String, Vec<u8>)>,
    pub stderr: String,
    /// Injected input faults that actually fired in this run (from the interposer's own log).
    pub io_faults: u64,
}

pub static IO_FAULT_RUNS: AtomicU64 = AtomicU64::new(0);
pub static IO_FAULTS_FIRED: AtomicU64 = AtomicU64::new(0);
pub static IO_FAULT_FAILED_CLEANLY: AtomicU64 = AtomicU64::new(0);
pub static IO_FAULT_SAME_OUTPUT: AtomicU64 = AtomicU64::new(0);
pub static SHORT_READ_RUNS: AtomicU64 = AtomicU64::new(0);

fn verify(bins: &Binaries, options: &[String], file_args: &[String], cwd: &Path, out: &Path, env: &Env) -> Out {
    verify_out(bins, options, file_args, cwd, out, None, env)
}

fn verify_out(bins: &Binaries, options: &[String], file_args: &[String], cwd: &Path, out: &Path, out_arg: Option<&str>, env: &Env) -> Out {
    let mut args = vec!["verify".to_string()];
    args.extend(options.iter().cloned());
    args.push("--no-proof-search".into());
    args.push("--save-problems".into());
    args.push(out_arg.map(str::to_string).unwrap_or_else(|| out.to_string_lossy().into_owned()));
    args.extend(file_args.iter().cloned());
    let mut extra = vec![];
    let iolog = PathBuf::from(format!("{}.iolog", out.display()));
    if env.io_fail.is_some() {
        extra.push(("VERIF_ENV_LOG".to_string(), iolog.to_string_lossy().into_owned()));
    }
    let po = e2::run_anthem(bins, &args, cwd, None, env, &extra, 120).unwrap_or_else(|e| harness_error(&format!("cannot run anthem: {e}")));
    let mut io_faults = 0;
    if env.io_fail.is_some() {
        if let Ok(text) = fs::read_to_string(&iolog) {
            for kv in text.split_whitespace() {
                if let Some(v) = kv.strip_prefix("iofaults=") {
                    io_faults += v.parse::<u64>().unwrap_or(0);
                }
            }
        }
        let _ = fs::remove_file(&iolog);
    }
    Out { ok: po.code == Some(0), files: read_dir_files(out), stderr: String::from_utf8_lossy(&po.stderr).into_owned(), io_faults }
}

#[derive(Clone, Debug, Serialize, Deserialize)]
pub struct Replay {
    pub property: String,
    pub kind: String,
    pub seed: u64,
    pub index: u64,
    pub scenario: Scenario,
    pub env: Env,
    pub reverse_creation: bool,
    pub detail: String,
    pub note: String,
}

/// One observation of the scenario under one directory-order environment; returns a violation text if any.
pub fn check_once(bins: &Binaries, s: &Scenario, env: &Env, reverse_creation: bool, scratch: &Mutex<Scratch>) -> (Option<(String, String)>, u64) {
    let mut runs = 0;
    let root = scratch.lock().unwrap().fresh_dir("lay");
    materialise(s, &root, reverse_creation);
    let mut env = env.clone();
    env.io_prefixes = vec![root.to_string_lossy().into_owned()];
    let env = &env;
    if env.io_fail.is_some() {
        IO_FAULT_RUNS.fetch_add(1, Ordering::Relaxed);
    } else if env.read_max.is_some() || env.read_eintr_every.is_some() {
        SHORT_READ_RUNS.fetch_add(1, Ordering::Relaxed);
    }
    // the layout invocation: moved flags sit between the files
    let moved: Vec<&String> = s.interleaved.iter().map(|(_, f)| f).collect();
    let layout_options: Vec<String> = s.options.iter().filter(|o| !moved.contains(o)).cloned().collect();
    let mut layout_args = s.args.clone();
    let mut ins = s.interleaved.clone();
    ins.sort_by(|a, b| b.0.cmp(&a.0));
    for (pos, flag) in ins {
        layout_args.insert(pos.min(layout_args.len()), flag);
    }
    let (out, got) = match &s.out_rel {
        Some(rel) => {
            let out = root.join(norm(rel));
            fs::create_dir_all(&out).expect("create relative output dir");
            let got = verify_out(bins, &layout_options, &layout_args, &root, &out, Some(rel), env);
            (out, got)
        }
        None => {
            let out = scratch.lock().unwrap().fresh_dir("out");
            let got = verify(bins, &layout_options, &layout_args, &root, &out, env);
            (out, got)
        }
    };
    runs += 1;
    let roles = model(s);
    let canon = canonical_files(s, &roles);
    let mut verdict = None;
    // an injected input fault that fired: anthem may fail (any message), it may never succeed with other output
    let excused = got.io_faults > 0 && !got.ok;
    if got.io_faults > 0 {
        IO_FAULTS_FIRED.fetch_add(got.io_faults, Ordering::Relaxed);
        if excused {
            IO_FAULT_FAILED_CLEANLY.fetch_add(1, Ordering::Relaxed);
        } else {
            IO_FAULT_SAME_OUTPUT.fetch_add(1, Ordering::Relaxed);
        }
    }
    match canon {
        _ if excused => {}
        None => {
            if got.ok || !got.files.is_empty() {
                verdict = Some(("role-missing-accepted".to_string(), format!("the reference model finds no file for a required role (roles: {roles:?}) but anthem exited successfully with {} problem file(s)", got.files.len())));
            }
        }
        Some(cfiles) => {
            let cdir = scratch.lock().unwrap().fresh_dir("canon");
            for (n, c) in &cfiles {
                fs::write(cdir.join(n), c).unwrap();
            }
            let cout = scratch.lock().unwrap().fresh_dir("out");
            let names: Vec<String> = cfiles.iter().map(|f| f.0.clone()).collect();
            let want = verify(bins, &s.options, &names, &cdir, &cout, &Env::plain());
            runs += 1;
            if want.ok != got.ok {
                verdict = Some(("roles-differ".to_string(), format!("exit status differs from the canonical invocation of the predicted roles {roles:?}: layout run ok={} ({}), canonical ok={} ({})", got.ok, got.stderr.lines().next().unwrap_or(""), want.ok, want.stderr.lines().next().unwrap_or(""))));
            } else if want.files != got.files {
                let which = want.files.iter().zip(got.files.iter()).find(|(a, b)| a != b).map(|(a, _)| a.0.clone()).unwrap_or_else(|| format!("file sets {:?} vs {:?}", want.files.iter().map(|f| &f.0).collect::<Vec<_>>(), got.files.iter().map(|f| &f.0).collect::<Vec<_>>()));
                verdict = Some(("roles-differ".to_string(), format!("saved problems differ from the canonical invocation of the predicted roles {roles:?}; first difference: {which}")));
            } else if s.marked && got.ok {
                // absolute check: formulas named *_left_* come from the first program (by the model), *_right_* from the second
                let (c1, c2) = (&cfiles[0].1, &cfiles[1].1);
                let left_marker = if c1.contains("zzfirst.") { "zzfirst" } else { "zzsecond" };
                let right_marker = if c2.contains("zzfirst.") { "zzfirst" } else { "zzsecond" };
                if left_marker != right_marker && c1.contains("zz") && c2.contains("zz") {
                    for (n, b) in &got.files {
                        for line in String::from_utf8_lossy(b).lines() {
                            if !line.starts_with("tff(formula_") || line.contains("transition_axiom") {
                                continue;
                            }
                            let name = line[4..].split(',').next().unwrap_or("");
                            if (line.contains(left_marker) && !name.contains("_left_")) || (line.contains(right_marker) && !name.contains("_right_")) {
                                verdict = Some(("left-right-misattributed".to_string(), format!("{n}: formula `{name}` carries the marker of the {} program", if line.contains(left_marker) { "first" } else { "second" })));
                            }
                        }
                    }
                }
            }
            // a proof outline that is given must be used: without it the canonical invocation has to come out differently
            // (only in the universal direction: an outline may hold lemmas for one direction only)
            let single_direction = s.options.windows(2).any(|w| w[0] == "--direction" && w[1] != "universal") || s.options.iter().any(|o| o.starts_with("--direction=") && o != "--direction=universal");
            // ... unless the outline has an entry without a direction annotation, which counts in every direction
            let unannotated = cfiles.iter().find(|f| f.0 == "c.po").map(|f| f.1.lines().any(|l| { let l = l.trim_start(); l.starts_with("lemma:") || l.starts_with("inductive-lemma:") })).unwrap_or(false);
            if verdict.is_none() && env.io_fail.is_none() && want.ok && cfiles.iter().any(|f| f.0 == "c.po") && s.equivalence == "external" && (!single_direction || unannotated) {
                let cout2 = scratch.lock().unwrap().fresh_dir("out");
                let names_no_po: Vec<String> = names.iter().filter(|n| *n != "c.po").cloned().collect();
                let without = verify(bins, &s.options, &names_no_po, &cdir, &cout2, &Env::plain());
                runs += 1;
                if without.ok && without.files == got.files {
                    verdict = Some(("role-file-ignored".to_string(), format!("the saved problems are the same with and without the proof outline {:?}: the .po file plays no role", roles.proof_outline)));
                }
                let _ = fs::remove_dir_all(cout2);
            }
            let _ = fs::remove_dir_all(cdir);
            let _ = fs::remove_dir_all(cout);
        }
    }
    if let (Some(v), Some((k, e))) = (verdict.as_mut(), env.io_fail) {
        v.1 = format!("[input operation #{k} failed with errno {e}: anthem may fail, but it exited successfully] {}", v.1);
    }
    let _ = fs::remove_dir_all(root);
    let _ = fs::remove_dir_all(out);
    (verdict, runs)
}

// ---------------------------------------------------------------------------------------------- swap clause

fn idents(s: &str) -> Vec<(usize, usize)> {
    let b = s.as_bytes();
    let mut v = vec![];
    let mut i = 0;
    while i < b.len() {
        if b[i].is_ascii_alphabetic() || b[i] == b'_' {
            let st = i;
            while i < b.len() && (b[i].is_ascii_alphanumeric() || b[i] == b'_') {
                i += 1;
            }
            v.push((st, i));
        } else {
            i += 1;
        }
    }
    v
}

/// (role, formula text) multiset of a problem file, formula names erased; type declarations as (type, decl).
fn normalise(bytes: &[u8], swap_private: &BTreeSet<String>) -> Vec<(String, String)> {
    let text = String::from_utf8_lossy(bytes);
    let mut v = vec![];
    for line in text.lines() {
        let Some(rest) = line.strip_prefix("tff(") else { continue };
        let mut parts = rest.splitn(3, ", ");
        let _name = parts.next();
        let role = parts.next().unwrap_or("").to_string();
        let mut body = parts.next().unwrap_or("").to_string();
        if !swap_private.is_empty() {
            let ids = idents(&body);
            let mut out = String::new();
            let mut last = 0;
            for (a, b) in ids {
                out.push_str(&body[last..a]);
                let id = &body[a..b];
                if let Some(base) = id.strip_suffix("_p") {
                    if swap_private.contains(base) {
                        out.push_str(base);
                    } else {
                        out.push_str(id);
                    }
                } else if swap_private.contains(id) {
                    out.push_str(id);
                    out.push_str("_p");
                } else {
                    out.push_str(id);
                }
                last = b;
            }
            out.push_str(&body[last..]);
            body = out;
        }
        v.push((role, body));
    }
    v.sort();
    v
}

fn private_pairs(files: &[(String, Vec<u8>)]) -> BTreeSet<String> {
    let mut all = BTreeSet::new();
    for (_, b) in files {
        let t = String::from_utf8_lossy(b).into_owned();
        for (a, e) in idents(&t) {
            all.insert(t[a..e].to_string());
        }
    }
    all.iter().filter(|x| all.contains(&format!("{x}_p"))).cloned().collect()
}

/// Swap clause on the canonical invocation: problems of (A,B) in one direction equal those of (B,A) in the other.
pub fn check_swap(bins: &Binaries, s: &Scenario, scratch: &Mutex<Scratch>) -> (Option<(String, String)>, u64, bool) {
    let roles = model(s);
    let Some(cfiles) = canonical_files(s, &roles) else { return (None, 0, false) };
    let two_programs = cfiles.iter().filter(|f| f.0.ends_with(".lp")).count() == 2;
    let has_po = cfiles.iter().any(|f| f.0.ends_with(".po"));
    if !two_programs || (s.equivalence == "external" && has_po) {
        return (None, 0, false);
    }
    let dir = scratch.lock().unwrap().fresh_dir("swap");
    for (n, c) in &cfiles {
        fs::write(dir.join(n), c).unwrap();
    }
    let names_ab: Vec<String> = cfiles.iter().map(|f| f.0.clone()).collect();
    let mut names_ba = names_ab.clone();
    names_ba.swap(0, 1);
    let o1 = scratch.lock().unwrap().fresh_dir("out");
    let o2 = scratch.lock().unwrap().fresh_dir("out");
    // with a fixed direction, the mirror image of (A,B) forward is (B,A) backward
    let mut options_ba = s.options.clone();
    for k in 0..options_ba.len() {
        if options_ba[k] == "--direction" && k + 1 < options_ba.len() {
            options_ba[k + 1] = match options_ba[k + 1].as_str() {
                "forward" => "backward".to_string(),
                "backward" => "forward".to_string(),
                o => o.to_string(),
            };
        } else if let Some(d) = options_ba[k].strip_prefix("--direction=") {
            options_ba[k] = format!("--direction={}", match d { "forward" => "backward", "backward" => "forward", o => o });
        }
    }
    let ab = verify(bins, &s.options, &names_ab, &dir, &o1, &Env::plain());
    let ba = verify(bins, &options_ba, &names_ba, &dir, &o2, &Env::plain());
    for d in [&dir, &o1, &o2] {
        let _ = fs::remove_dir_all(d);
    }
    if !ab.ok || !ba.ok {
        // e.g. a tightness or private-recursion restriction that only one order meets: nothing to compare
        return (None, 2, false);
    }
    let flip = |n: &str| -> String {
        if let Some(r) = n.strip_prefix("forward") {
            format!("backward{r}")
        } else if let Some(r) = n.strip_prefix("backward") {
            format!("forward{r}")
        } else {
            n.to_string()
        }
    };
    let none = BTreeSet::new();
    let swap = if s.equivalence == "external" { private_pairs(&ba.files) } else { BTreeSet::new() };
    let a: BTreeMap<String, Vec<(String, String)>> = ab.files.iter().map(|(n, b)| (n.clone(), normalise(b, &none))).collect();
    let b: BTreeMap<String, Vec<(String, String)>> = ba.files.iter().map(|(n, b)| (flip(n), normalise(b, &swap))).collect();
    if a.keys().collect::<Vec<_>>() != b.keys().collect::<Vec<_>>() {
        return (Some(("swap-clause".into(), format!("problem names do not mirror: (A,B) gives {:?}, (B,A) with directions flipped gives {:?}", a.keys().collect::<Vec<_>>(), b.keys().collect::<Vec<_>>()))), 2, true);
    }
    for (n, fa) in &a {
        let fb = &b[n];
        if fa != fb {
            let only_a: Vec<&(String, String)> = fa.iter().filter(|x| !fb.contains(x)).take(2).collect();
            let only_b: Vec<&(String, String)> = fb.iter().filter(|x| !fa.contains(x)).take(2).collect();
            return (Some(("swap-clause".into(), format!("{n} of (A,B) is not {} of (B,A) with axiom/conjecture roles as stated; only in (A,B): {only_a:?}; only in (B,A): {only_b:?}", flip(n)))), 2, true);
        }
    }
    (None, 2, true)
}

fn envs_for(seed: u64, i: u64, thorough: bool, has_dir: bool) -> Vec<(Env, bool)> {
    let mut v = vec![(Env::plain(), false)];
    // input faults (every scenario): short reads and EINTR must not matter at all; a failing open/stat/opendir/read/
    // readdir on an input object may make anthem fail, never succeed with different problems
    {
        let mut rng = Rng::new(mix2(seed ^ 0x10fa, i));
        let mut benign = Env::plain();
        benign.preload = true;
        benign.read_max = Some(*rng.pick(&[1u64, 3, 16, 100]));
        benign.read_eintr_every = if rng.pct(60) { Some(*rng.pick(&[2u64, 3, 5])) } else { None };
        v.push((benign, false));
        for _ in 0..if thorough { 5 } else { 2 } {
            let mut e = Env::plain();
            e.preload = true;
            let k = if rng.pct(75) { 1 + rng.below(14) } else { 1 + rng.below(80) };
            e.io_fail = Some((k, *rng.pick(&[5u32, 5, 13, 2, 24, 12, 4, 116])));
            if has_dir && rng.pct(50) {
                e.dir_mode = rng.pick(&["sorted", "reverse", "shuffle"]).to_string();
                e.dir_seed = rng.next();
            }
            v.push((e, false));
        }
    }
    if !has_dir {
        return v;
    }
    v.push((Env::plain(), true)); // native order with the files created in the opposite order
    let mut rng = Rng::new(mix2(seed ^ 0xd1c, i));
    let mut mk = |mode: &str, rng: &mut Rng| {
        let mut e = Env::plain();
        e.preload = true;
        e.dir_mode = mode.to_string();
        e.dir_seed = rng.next();
        e
    };
    v.push((mk("sorted", &mut rng), false));
    v.push((mk("reverse", &mut rng), false));
    for _ in 0..if thorough { 4 } else { 2 } {
        v.push((mk("shuffle", &mut rng), false));
    }
    v
}

#[derive(Default)]
struct Tally {
    scenarios: u64,
    runs: u64,
    swap_checked: u64,
    marked_checked: u64,
    expected_errors: u64,
    with_dirs: u64,
    nested: u64,
    third_lp: u64,
    junk: u64,
    upper: u64,
    hidden: u64,
    dot_dirs: u64,
    root_arg: u64,
    spelled: u64,
    out_rel: u64,
    symlinks: u64,
    prefix_nest: u64,
    dir_modes: BTreeMap<String, u64>,
    by_equivalence: BTreeMap<String, u64>,
    distinct: BTreeSet<String>,
    violations: Vec<Replay>,
    samples: Vec<serde_json::Value>,
}

pub fn main(args: &Args) {
    let t0 = Instant::now();
    let seed = seed_from(args);
    let tier = args.get("tier").unwrap_or("quick").to_string();
    let thorough = tier == "thorough";
    let n = args.u64("scenarios", if thorough { 30_000 } else { 1_500 });
    let workers = args.u64("workers", std::thread::available_parallelism().map(|n| n.get() as u64).unwrap_or(8)) as usize;
    let bins = Arc::new(Binaries::locate());
    let repo = PathBuf::from(std::env::var("VERIF_REPO").unwrap_or_else(|_| "/repo".into()));
    let tasks = Arc::new(corpus::load(&repo, &verif_home()).into_iter().filter(|t| !t.refused && !t.large).collect::<Vec<_>>());
    if tasks.is_empty() {
        harness_error("no tasks");
    }
    println!("C20 tier={tier} seed={seed} scenarios={n} workers={workers}");
    let scratch = Arc::new(Mutex::new(Scratch::new("c20")));
    let _ = e2::INTERPOSER_LOG.set(scratch.lock().unwrap().root.join("interposer.log"));
    let next = Arc::new(AtomicU64::new(0));
    let tally = Arc::new(Mutex::new(Tally::default()));
    let mut hs = vec![];
    for _ in 0..workers {
        let (bins, tasks, scratch, next, tally) = (bins.clone(), tasks.clone(), scratch.clone(), next.clone(), tally.clone());
        hs.push(std::thread::spawn(move || loop {
            let i = next.fetch_add(1, Ordering::SeqCst);
            if i >= n {
                break;
            }
            let s = draw(seed, i, &tasks, thorough);
            let has_dir = s.args.iter().any(|a| !s.files.iter().any(|f| f.path == norm(a)));
            let mut local = Tally::default();
            local.scenarios = 1;
            let roles = model(&s);
            if canonical_files(&s, &roles).is_none() {
                local.expected_errors += 1;
            }
            if has_dir {
                local.with_dirs += 1;
            }
            if s.files.iter().any(|f| f.path.matches('/').count() >= 2) {
                local.nested += 1;
            }
            if s.files.iter().any(|f| f.meant == "lp3") {
                local.third_lp += 1;
            }
            if s.files.iter().any(|f| f.meant == "junk") {
                local.junk += 1;
            }
            if s.files.iter().any(|f| f.meant != "junk" && f.path.rsplit('/').next().unwrap().chars().next().unwrap().is_ascii_uppercase()) {
                local.upper += 1;
            }
            if s.files.iter().any(|f| f.meant != "junk" && f.path.rsplit('/').next().unwrap().starts_with('.')) {
                local.hidden += 1;
            }
            if s.files.iter().any(|f| f.path.split('/').rev().skip(1).any(|d| d.starts_with('.'))) {
                local.dot_dirs += 1;
            }
            if s.args.iter().any(|a| norm(a).is_empty()) {
                local.root_arg += 1;
            }
            if s.args.iter().any(|a| *a != norm(a)) {
                local.spelled += 1;
            }
            if s.out_rel.is_some() {
                local.out_rel += 1;
            }
            if s.files.iter().any(|f| f.link_to.is_some()) {
                local.symlinks += 1;
            }
            if s.files.iter().any(|f| f.path.contains("nest/")) {
                local.prefix_nest += 1;
            }
            *local.by_equivalence.entry(s.equivalence.clone()).or_insert(0) += 1;
            local.distinct.insert(format!("{:?}|{:?}|{}", s.args, s.files.iter().map(|f| (&f.path, &f.meant)).collect::<Vec<_>>(), s.task_id));
            for (env, rev) in envs_for(seed, i, thorough, has_dir) {
                *local.dir_modes.entry(format!("{}{}{}", env.dir_mode, if rev { "+reverse-creation" } else { "" }, if env.io_fail.is_some() { "+input-fault" } else if env.read_max.is_some() { "+short-reads" } else { "" })).or_insert(0) += 1;
                let (v, runs) = check_once(&bins, &s, &env, rev, &scratch);
                local.runs += runs;
                if let Some((kind, detail)) = v {
                    if local.violations.is_empty() {
                        local.violations.push(Replay { property: "C20".into(), kind, seed, index: i, scenario: s.clone(), env: env.clone(), reverse_creation: rev, detail, note: String::new() });
                    }
                }
            }
            if s.marked {
                local.marked_checked += 1;
            }
            let (v, runs, compared) = check_swap(&bins, &s, &scratch);
            local.runs += runs;
            if compared {
                local.swap_checked += 1;
            }
            if let Some((kind, detail)) = v {
                local.violations.push(Replay { property: "C20".into(), kind, seed, index: i, scenario: s.clone(), env: Env::plain(), reverse_creation: false, detail, note: String::new() });
            }
            if i % 83 == 5 || (has_dir && i % 29 == 1) {
                let argv: Vec<String> = [s.options.clone(), s.args.clone()].concat();
                local.samples.push(serde_json::json!({"scenario": i, "task": s.task_id, "argv": argv, "files_on_disk": s.files.iter().map(|f| format!("{} [{}]", f.path, f.meant)).collect::<Vec<_>>(), "creation_order": s.creation_order, "model_roles": roles, "marker_check": s.marked, "violations": local.violations.len()}));
            }
            let mut t = tally.lock().unwrap();
            t.scenarios += 1;
            t.runs += local.runs;
            t.swap_checked += local.swap_checked;
            t.marked_checked += local.marked_checked;
            t.expected_errors += local.expected_errors;
            t.with_dirs += local.with_dirs;
            t.nested += local.nested;
            t.third_lp += local.third_lp;
            t.junk += local.junk;
            t.upper += local.upper;
            t.hidden += local.hidden;
            t.dot_dirs += local.dot_dirs;
            t.root_arg += local.root_arg;
            t.spelled += local.spelled;
            t.out_rel += local.out_rel;
            t.symlinks += local.symlinks;
            t.prefix_nest += local.prefix_nest;
            for (k, v) in local.dir_modes {
                *t.dir_modes.entry(k).or_insert(0) += v;
            }
            for (k, v) in local.by_equivalence {
                *t.by_equivalence.entry(k).or_insert(0) += v;
            }
            t.distinct.extend(local.distinct);
            t.violations.extend(local.violations);
            if t.samples.len() < 6 {
                t.samples.extend(local.samples);
            }
        }));
    }
    for h in hs {
        if h.join().is_err() {
            harness_error("a C20 worker thread panicked");
        }
    }
    let tally = Arc::try_unwrap(tally).ok().unwrap().into_inner().unwrap();

    let replays_dir = verif_home().join("replays");
    let _ = fs::create_dir_all(&replays_dir);
    let known = crate::load_known();
    let mut new_violations = 0u64;
    let mut reported = BTreeSet::new();
    let mut known_lines = BTreeSet::new();
    let mut vs = tally.violations.clone();
    vs.sort_by_key(|v| (v.kind.clone(), v.scenario.files.len() + v.scenario.args.len(), v.index));
    for v in vs {
        if let Some(k) = known.iter().find(|k| k.property == "C20" && k.class == v.kind && v.detail.contains(&k.detail_contains)) {
            known_lines.insert(format!("KNOWN-FINDING: property=C20 {}", k.what));
            continue;
        }
        new_violations += 1;
        if !reported.insert(v.kind.clone()) {
            continue;
        }
        let original = v.clone();
        let min = minimise(&bins, v, &scratch);
        let path = replays_dir.join(format!("C20-{}-{}-{}.json", seed, min.index, min.kind));
        fs::write(&path, serde_json::to_string_pretty(&min).unwrap()).unwrap();
        // an environment-level violation should replay exactly; if the tree under test has a source of
        // nondeterminism the simulator does not own (its own threads, say), a few attempts may be needed
        let mut confirmed_after = 0;
        for attempt in 1..=6 {
            let confirm = std::process::Command::new(std::env::current_exe().unwrap()).args(["c20-replay", path.to_str().unwrap(), "--quiet"]).output().unwrap();
            if confirm.status.code() == Some(1) {
                confirmed_after = attempt;
                break;
            }
        }
        println!("violation kind={} scenario={} argv={:?}", min.kind, min.index, min.scenario.args);
        println!("  files: {:?}", min.scenario.files.iter().map(|f| f.path.as_str()).collect::<Vec<_>>());
        println!("  {}", min.detail);
        println!("  {}", min.note);
        if confirmed_after == 1 {
            println!("VIOLATION property=C20 replay={}", path.display());
        } else if confirmed_after > 1 {
            println!("  note: reproduced on attempt {confirmed_after} of 6: the tree under test has a source of nondeterminism the simulator does not own");
            println!("VIOLATION property=C20 replay={}", path.display());
        } else {
            // keep the observation itself: two runs of the same thing disagreed, which no environment we control explains
            fs::write(&path, serde_json::to_string_pretty(&original).unwrap()).unwrap();
            println!("  note: observed once and not reproduced in 6 replays; the observation (both outputs) is recorded in the replay file. The tree under test has a source of nondeterminism the simulator does not own");
            println!("VIOLATION property=C20 replay={}", path.display());
        }
    }
    for l in &known_lines {
        println!("{l}");
    }
    let wall = t0.elapsed().as_secs_f64();
    let evidence_path = args.get("evidence").map(PathBuf::from).unwrap_or_else(|| verif_home().join("evidence/C20.json"));
    let ev = serde_json::json!({
        "property_id": "C20", "tier": tier, "seed": seed, "level": "exploration", "wall_s": wall, "violations": new_violations,
        "coverage": {
            "evaluations": tally.runs,
            "distinct_nontrivial": tally.distinct.len(),
            "rule": "scenario i is drawn from mix(seed, i): a verify task of the corpus, its files under seeded names (several dots, hidden, fixed-width digits, sometimes upper case) placed explicitly or inside up to three (possibly nested) directories, junk files of other extensions, an optional third .lp, a random argument permutation, a random file-creation order. One evaluation = one run of the shipped binary (verify --no-proof-search --save-problems). Each scenario runs under native, sorted, reverse and shuffled readdir orders and with creation order reversed, once with short reads and EINTR on every input file (must not matter) and two (quick) or five (thorough) times with the k-th open/stat/opendir/read/readdir on an input object failing (anthem may fail, it may not succeed with other problems); every run must produce exactly the problem files of the canonical invocation that passes the model's predicted role files explicitly (or fail when the model finds a required role empty). Distinct non-trivial = distinct (argument list, file layout, task) triples.",
            "samples": tally.samples,
            "scenarios": tally.scenarios,
            "scenarios_with_directory_arguments": tally.with_dirs,
            "scenarios_with_nested_directories": tally.nested,
            "scenarios_with_third_lp": tally.third_lp,
            "scenarios_with_junk_files": tally.junk,
            "scenarios_with_upper_case_names": tally.upper,
            "scenarios_with_hidden_role_files": tally.hidden,
            "scenarios_with_dot_directories": tally.dot_dirs,
            "scenarios_with_root_as_argument": tally.root_arg,
            "scenarios_with_respelled_arguments": tally.spelled,
            "scenarios_with_output_dir_next_to_inputs": tally.out_rel,
            "scenarios_where_model_expects_an_error": tally.expected_errors,
            "scenarios_by_equivalence": tally.by_equivalence,
            "directory_order_faults_injected_runs": tally.dir_modes,
            "interposer_calls_answered": e2::interposer_totals(),
            "input_faults": {
                "runs_with_a_configured_fault": IO_FAULT_RUNS.load(Ordering::Relaxed),
                "faults_fired": IO_FAULTS_FIRED.load(Ordering::Relaxed),
                "runs_where_anthem_failed_cleanly": IO_FAULT_FAILED_CLEANLY.load(Ordering::Relaxed),
                "runs_where_the_fault_was_absorbed_and_output_was_identical": IO_FAULT_SAME_OUTPUT.load(Ordering::Relaxed),
                "errnos": "EIO, EACCES, ENOENT, EMFILE, ENOMEM, EINTR, ESTALE on the k-th open64/opendir/stat/read/readdir of an object below the scenario root",
                "benign_short_read_and_eintr_runs": SHORT_READ_RUNS.load(Ordering::Relaxed)
            },
            "scenarios_with_symlinks_under_roleless_names": tally.symlinks,
            "scenarios_with_names_extending_each_other_across_levels": tally.prefix_nest,
            "swap_clause_pairs_compared": tally.swap_checked,
            "left_right_marker_checks": tally.marked_checked,
            "runs_per_hour": (tally.runs as f64 / wall.max(0.001) * 3600.0) as u64,
            "real_vs_stub": {"real": ["the whole anthem binary (release, hooks off): clap, Files::sort, walkdir, task construction, problem emission", "the kernel's file system (scratch directory)"], "interposed (seeded)": ["readdir64 order", "file creation order"], "reference model": ["40-line role assignment (c20::model)"]}
        },
        "assumptions": [
            "Layouts are restricted to those on which the statement is unambiguous: at most one .spec/.ug/.po, exactly one .lp next to a .spec, no file named exactly '.lp'; symbolic links only under names without a role (whatever they point to, the name decides); inside a directory 'file-name order' is read as byte-wise order of file names per directory level (what the anchored mechanism does).",
            "Swap clause: compared for strong equivalence and for external equivalence of two programs without a proof outline, as multisets of (role, formula) per problem with formula names erased, external tasks modulo the private-predicate renaming bijection X <-> X_p."
        ]
    });
    if let Some(p) = evidence_path.parent() {
        let _ = fs::create_dir_all(p);
    }
    fs::write(&evidence_path, serde_json::to_string_pretty(&ev).unwrap()).unwrap();
    println!("C20: {} scenarios, {} anthem runs ({:.0}/s), {} swap pairs, {} violation(s); evidence {}", tally.scenarios, tally.runs, tally.runs as f64 / wall, tally.swap_checked, new_violations, evidence_path.display());
    drop(scratch);
    std::process::exit(if new_violations > 0 { 1 } else { 0 });
}

fn still_fails(bins: &Binaries, r: &Replay, scratch: &Mutex<Scratch>) -> Option<String> {
    if r.kind == "swap-clause" {
        check_swap(bins, &r.scenario, scratch).0.filter(|v| v.0 == r.kind).map(|v| v.1)
    } else {
        check_once(bins, &r.scenario, &r.env, r.reverse_creation, scratch).0.filter(|v| v.0 == r.kind).map(|v| v.1)
    }
}

/// Drop junk and extra files, flatten directories, simplify the directory order, while the same kind of violation persists.
fn minimise(bins: &Binaries, mut r: Replay, scratch: &Mutex<Scratch>) -> Replay {
    let mut tries = 0;
    // simpler directory order
    for mode in ["natural", "sorted", "reverse"] {
        if r.env.dir_mode == "shuffle" || (mode == "natural" && r.env.preload) {
            let mut c = r.clone();
            c.env = if mode == "natural" { Env::plain() } else { Env { preload: true, dir_mode: mode.into(), ..Env::plain() } };
            tries += 1;
            if let Some(d) = still_fails(bins, &c, scratch) {
                r = c;
                r.detail = d;
                break;
            }
        }
    }
    // drop files one at a time (junk first)
    let mut order: Vec<String> = r.scenario.files.iter().filter(|f| f.meant == "junk").map(|f| f.path.clone()).collect();
    order.extend(r.scenario.files.iter().filter(|f| f.meant != "junk").map(|f| f.path.clone()));
    for p in order {
        let mut c = r.clone();
        let Some(idx) = c.scenario.files.iter().position(|f| f.path == p) else { continue };
        c.scenario.files.remove(idx);
        c.scenario.creation_order = (0..c.scenario.files.len()).collect();
        c.scenario.args.retain(|a| norm(a) != p);
        // a directory argument that became empty would make anthem fail for another reason
        c.scenario.args.retain(|a| {
            let n = norm(a);
            n.is_empty() || c.scenario.files.iter().any(|f| f.path == n || f.path.starts_with(&format!("{n}/")))
        });
        tries += 1;
        if let Some(d) = still_fails(bins, &c, scratch) {
            r = c;
            r.detail = d;
        }
    }
    // drop options
    for flag in ["--no-simplify", "--no-eq-break"] {
        if r.scenario.options.iter().any(|o| o == flag) {
            let mut c = r.clone();
            c.scenario.options.retain(|o| o != flag);
            tries += 1;
            if let Some(d) = still_fails(bins, &c, scratch) {
                r = c;
                r.detail = d;
            }
        }
    }
    r.note = format!("minimised with {tries} re-runs; model roles: {:?}", model(&r.scenario));
    r
}

pub fn replay(args: &Args) {
    let path = match args.pos.first() {
        Some(p) => p.clone(),
        None => harness_error("usage: vcheck c20-replay FILE"),
    };
    let r: Replay = serde_json::from_str(&fs::read_to_string(&path).unwrap_or_else(|e| harness_error(&format!("{path}: {e}")))).unwrap_or_else(|e| harness_error(&format!("{path}: {e}")));
    let bins = Binaries::locate();
    let scratch = Mutex::new(Scratch::new("c20r"));
    let quiet = args.get("quiet").is_some();
    match still_fails(&bins, &r, &scratch) {
        Some(d) => {
            if !quiet {
                println!("replayed {path}: {} — {d}", r.kind);
                println!("VIOLATION property=C20 replay={path}");
            }
            std::process::exit(1);
        }
        None => {
            if !quiet {
                println!("replayed {path}: the recorded {} violation did not occur", r.kind);
            }
            std::process::exit(0);
        }
    }
}
