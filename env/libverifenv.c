/* libverifenv — LD_PRELOAD interposer that puts the process environment of the shipped
 * `anthem` binary under the control of a seed.  Every answer below is a pure function of
 * the VERIF_ENV_* variables; with none of them set every call passes through unchanged.
 *
 *   VERIF_ENV_HASHSEED=<u64>   getrandom(): bytes from a SplitMix64 stream (std's RandomState keys)
 *   VERIF_ENV_DIRMODE=natural|sorted|reverse|shuffle  + VERIF_ENV_DIRSEED=<u64>
 *                              readdir()/readdir64(): entries of each directory stream are
 *                              buffered on first use and returned in the chosen order
 *   VERIF_ENV_CPUS=<n>         sched_getaffinity()/sysconf(_SC_NPROCESSORS_*): n CPUs
 *   VERIF_ENV_CLOCK_OFFSET_MS=<i64>, VERIF_ENV_CLOCK_JUMP_MS=<u64>, VERIF_ENV_CLOCK_JUMP_EVERY=<n>
 *                              clock_gettime(): shifted; every n-th read jumps forward
 *   VERIF_ENV_HEAP_PAD=<bytes> constructor leaks one allocation of that size (heap layout)
 *   VERIF_ENV_WRITE_FAIL_AT=<k> + VERIF_ENV_WRITE_ERRNO=<e>
 *                              write(): the k-th write (1-based) to a pipe on a descriptor above 2 fails with errno e
 *   VERIF_ENV_WRITE_SHORT_EVERY=<n>
 *                              write(): every n-th write to such a pipe transfers only half of the bytes (>= 1)
 *   VERIF_ENV_OWRITE_FAIL_AT=<k> + VERIF_ENV_OWRITE_ERRNO=<e>
 *                              write(): the k-th write to a regular file on a descriptor above 2 fails with errno e (ENOSPC, EIO, ...)
 *   VERIF_ENV_OWRITE_SHORT_EVERY=<n>
 *                              write(): every n-th write to such a file transfers only half of the bytes (>= 1)
 *   VERIF_ENV_SPAWN_FAIL_AT=<k> + VERIF_ENV_SPAWN_ERRNO=<e>
 *                              posix_spawn()/posix_spawnp(): the k-th call fails with errno e (EAGAIN, ENOMEM)
 *   VERIF_ENV_IO_PREFIX=<dir>[:<dir>...]  "input objects" are paths below these directories (relative paths count when the working
 *                              directory is below it); everything else (/proc, /sys, shared libraries) is never touched
 *   VERIF_ENV_READ_MAX=<n>     read(): at most n bytes per call on a descriptor opened read-only on an input object (short reads)
 *   VERIF_ENV_READ_EINTR_EVERY=<k>  read(): every k-th such call fails once with EINTR (std retries)
 *   VERIF_ENV_IO_FAIL_AT=<k> + VERIF_ENV_IO_ERRNO=<e>
 *                              the k-th operation on an input object (open64 read-only, opendir, stat64/lstat64/fstatat64/statx,
 *                              read, readdir64; 1-based, in call order) fails with errno e
 *   VERIF_ENV_LOG=<path>       append one line per interposed call class with counts at exit
 */
#define _GNU_SOURCE
#include <dirent.h>
#include <dlfcn.h>
#include <errno.h>
#include <sched.h>
#include <stdint.h>
#include <stdio.h>
#include <stdlib.h>
#include <string.h>
#include <sys/types.h>
#include <time.h>
#include <unistd.h>
#include <pthread.h>

static uint64_t splitmix(uint64_t *s) {
    uint64_t z = (*s += 0x9e3779b97f4a7c15ULL);
    z = (z ^ (z >> 30)) * 0xbf58476d1ce4e5b9ULL;
    z = (z ^ (z >> 27)) * 0x94d049bb133111ebULL;
    return z ^ (z >> 31);
}

static int env_u64(const char *name, uint64_t *out) {
    const char *v = getenv(name);
    if (!v || !*v) return 0;
    *out = strtoull(v, NULL, 10);
    return 1;
}

static pthread_mutex_t lock = PTHREAD_MUTEX_INITIALIZER;
static unsigned long n_getrandom, n_readdir, n_affinity, n_clock, n_dirs;

/* ------------------------------------------------------------ input faults */
#include <fcntl.h>
#include <stdarg.h>
#include <sys/stat.h>
static int io_init_done = 0;
static const char *io_prefix; /* colon-separated list of directories */
static uint64_t io_read_max, io_eintr_every, io_fail_at, io_errno = 5;
static unsigned long n_io_ops, n_io_faults, n_short_reads, n_read_eintr, n_input_reads;
static unsigned char io_fd[4096];
#define IO_MAXDIRS 256
static DIR *io_dirs[IO_MAXDIRS];

static void io_init(void) {
    if (io_init_done) return;
    pthread_mutex_lock(&lock);
    if (!io_init_done) {
        io_prefix = getenv("VERIF_ENV_IO_PREFIX");
        if (io_prefix && !*io_prefix) io_prefix = NULL;
        env_u64("VERIF_ENV_READ_MAX", &io_read_max);
        env_u64("VERIF_ENV_READ_EINTR_EVERY", &io_eintr_every);
        if (io_eintr_every == 1) io_eintr_every = 2; /* every read failing would be a livelock, not a fault */
        env_u64("VERIF_ENV_IO_FAIL_AT", &io_fail_at);
        env_u64("VERIF_ENV_IO_ERRNO", &io_errno);
        io_init_done = 1;
    }
    pthread_mutex_unlock(&lock);
}

/* noinline + volatile: glibc declares the path arguments nonnull, and Rust's std probes statx with a NULL path */
static __attribute__((noinline)) int io_is_input(const char *volatile path_in) {
    const char *path = path_in;
    if (!io_prefix || !path || !*path) return 0;
    char cwd[4096];
    const char *subject = path;
    if (path[0] != '/') {
        if (!getcwd(cwd, sizeof cwd)) return 0;
        subject = cwd;
    }
    for (const char *p = io_prefix; *p;) {
        const char *end = strchr(p, ':');
        size_t len = end ? (size_t)(end - p) : strlen(p);
        if (len > 0 && strncmp(subject, p, len) == 0) return 1;
        p += len;
        if (*p == ':') p++;
    }
    return 0;
}

/* one more operation on an input object: 0 = let it through, else the errno to fail with */
static int io_op(void) {
    unsigned long k = __sync_add_and_fetch(&n_io_ops, 1);
    if (io_fail_at && k == io_fail_at) {
        __sync_fetch_and_add(&n_io_faults, 1);
        return (int)io_errno;
    }
    return 0;
}

int open64(const char *path, int flags, ...) {
    static int (*real)(const char *, int, ...);
    if (!real) real = dlsym(RTLD_NEXT, "open64");
    mode_t mode = 0;
    if (flags & (O_CREAT | O_TMPFILE)) {
        va_list ap;
        va_start(ap, flags);
        mode = va_arg(ap, mode_t);
        va_end(ap);
    }
    io_init();
    int input = (flags & O_ACCMODE) == O_RDONLY && !(flags & O_DIRECTORY) && io_is_input(path);
    if (input) {
        int e = io_op();
        if (e) { errno = e; return -1; }
    }
    int fd = real(path, flags, mode);
    if (input && fd >= 0 && fd < (int)sizeof io_fd) io_fd[fd] = 1;
    return fd;
}

int close(int fd) {
    static int (*real)(int);
    if (!real) real = dlsym(RTLD_NEXT, "close");
    if (fd >= 0 && fd < (int)sizeof io_fd) io_fd[fd] = 0;
    return real(fd);
}

ssize_t read(int fd, void *buf, size_t count) {
    static ssize_t (*real)(int, void *, size_t);
    if (!real) real = dlsym(RTLD_NEXT, "read");
    if (fd >= 0 && fd < (int)sizeof io_fd && io_fd[fd] && count > 0) {
        unsigned long k = __sync_add_and_fetch(&n_input_reads, 1);
        int e = io_op();
        if (e) { errno = e; return -1; }
        if (io_eintr_every && k % io_eintr_every == 0) {
            __sync_fetch_and_add(&n_read_eintr, 1);
            errno = EINTR;
            return -1;
        }
        if (io_read_max && count > io_read_max) {
            __sync_fetch_and_add(&n_short_reads, 1);
            count = (size_t)io_read_max;
        }
    }
    return real(fd, buf, count);
}

DIR *opendir(const char *path) {
    static DIR *(*real)(const char *);
    if (!real) real = dlsym(RTLD_NEXT, "opendir");
    io_init();
    int input = io_is_input(path);
    if (input) {
        int e = io_op();
        if (e) { errno = e; return NULL; }
    }
    DIR *d = real(path);
    if (input && d) {
        pthread_mutex_lock(&lock);
        for (int i = 0; i < IO_MAXDIRS; i++)
            if (!io_dirs[i]) { io_dirs[i] = d; break; }
        pthread_mutex_unlock(&lock);
    }
    return d;
}

static int io_dir_tracked(DIR *d, int forget) {
    for (int i = 0; i < IO_MAXDIRS; i++)
        if (io_dirs[i] == d) {
            if (forget) io_dirs[i] = NULL;
            return 1;
        }
    return 0;
}

#define IO_STAT_FAULT(path)                         \
    do {                                            \
        io_init();                                  \
        if (io_is_input(path)) {                    \
            int e_ = io_op();                       \
            if (e_) { errno = e_; return -1; }      \
        }                                           \
    } while (0)

int stat64(const char *path, struct stat64 *st) {
    static int (*real)(const char *, struct stat64 *);
    if (!real) real = dlsym(RTLD_NEXT, "stat64");
    IO_STAT_FAULT(path);
    return real(path, st);
}

int lstat64(const char *path, struct stat64 *st) {
    static int (*real)(const char *, struct stat64 *);
    if (!real) real = dlsym(RTLD_NEXT, "lstat64");
    IO_STAT_FAULT(path);
    return real(path, st);
}

int fstatat64(int dirfd, const char *path, struct stat64 *st, int flags) {
    static int (*real)(int, const char *, struct stat64 *, int);
    if (!real) real = dlsym(RTLD_NEXT, "fstatat64");
    IO_STAT_FAULT(path);
    return real(dirfd, path, st, flags);
}

struct statx;
int statx(int dirfd, const char *path, int flags, unsigned int mask, struct statx *buf) {
    static int (*real)(int, const char *, int, unsigned int, struct statx *);
    if (!real) real = dlsym(RTLD_NEXT, "statx");
    IO_STAT_FAULT(path);
    return real(dirfd, path, flags, mask, buf);
}

/* ---------------------------------------------------------------- getrandom */
static uint64_t rnd_state;
static int rnd_on = -1;

ssize_t getrandom(void *buf, size_t len, unsigned int flags) {
    static ssize_t (*real)(void *, size_t, unsigned int);
    if (!real) real = dlsym(RTLD_NEXT, "getrandom");
    pthread_mutex_lock(&lock);
    if (rnd_on < 0) rnd_on = env_u64("VERIF_ENV_HASHSEED", &rnd_state);
    if (!rnd_on) {
        pthread_mutex_unlock(&lock);
        return real ? real(buf, len, flags) : (errno = ENOSYS, -1);
    }
    n_getrandom++;
    unsigned char *p = buf;
    size_t i = 0;
    while (i < len) {
        uint64_t v = splitmix(&rnd_state);
        for (int k = 0; k < 8 && i < len; k++, i++) p[i] = (unsigned char)(v >> (8 * k));
    }
    pthread_mutex_unlock(&lock);
    return (ssize_t)len;
}

/* ------------------------------------------------------------------ readdir */
struct dirbuf {
    DIR *dir;
    struct dirent64 *ents;
    size_t n, pos;
    struct dirbuf *next;
};
static struct dirbuf *dirs;
static int dir_mode = -1; /* 0 natural(pass-through) 1 sorted 2 reverse 3 shuffle */
static uint64_t dir_seed;

static void dir_init(void) {
    const char *m = getenv("VERIF_ENV_DIRMODE");
    dir_mode = 0;
    if (m) {
        if (!strcmp(m, "sorted")) dir_mode = 1;
        else if (!strcmp(m, "reverse")) dir_mode = 2;
        else if (!strcmp(m, "shuffle")) dir_mode = 3;
    }
    env_u64("VERIF_ENV_DIRSEED", &dir_seed);
}

static int cmp_name(const void *a, const void *b) {
    return strcmp(((const struct dirent64 *)a)->d_name, ((const struct dirent64 *)b)->d_name);
}

static struct dirbuf *dir_get(DIR *d) {
    static struct dirent64 *(*real)(DIR *);
    if (!real) real = dlsym(RTLD_NEXT, "readdir64");
    for (struct dirbuf *b = dirs; b; b = b->next)
        if (b->dir == d) return b;
    struct dirbuf *b = calloc(1, sizeof *b);
    b->dir = d;
    size_t cap = 0;
    struct dirent64 *e;
    while ((e = real(d)) != NULL) {
        if (b->n == cap) {
            cap = cap ? cap * 2 : 16;
            b->ents = realloc(b->ents, cap * sizeof *b->ents);
        }
        b->ents[b->n++] = *e;
    }
    n_dirs++;
    if (b->n > 1) {
        qsort(b->ents, b->n, sizeof *b->ents, cmp_name);
        if (dir_mode == 2) {
            for (size_t i = 0, j = b->n - 1; i < j; i++, j--) {
                struct dirent64 t = b->ents[i]; b->ents[i] = b->ents[j]; b->ents[j] = t;
            }
        } else if (dir_mode == 3) {
            /* seeded Fisher-Yates over the sorted list; key also depends on the entry count so
               sibling directories get different permutations */
            uint64_t s = dir_seed ^ (0x51ed270b1ULL * (b->n + n_dirs));
            for (size_t i = b->n - 1; i > 0; i--) {
                size_t j = (size_t)(splitmix(&s) % (i + 1));
                struct dirent64 t = b->ents[i]; b->ents[i] = b->ents[j]; b->ents[j] = t;
            }
        }
    }
    b->next = dirs;
    dirs = b;
    return b;
}

struct dirent64 *readdir64(DIR *d) {
    static struct dirent64 *(*real)(DIR *);
    if (!real) real = dlsym(RTLD_NEXT, "readdir64");
    io_init();
    if ((io_fail_at) && io_dir_tracked(d, 0)) {
        int e = io_op();
        if (e) { errno = e; return NULL; }
    }
    pthread_mutex_lock(&lock);
    if (dir_mode < 0) dir_init();
    if (dir_mode == 0) {
        pthread_mutex_unlock(&lock);
        return real(d);
    }
    struct dirbuf *b = dir_get(d);
    struct dirent64 *r = b->pos < b->n ? &b->ents[b->pos++] : NULL;
    n_readdir++;
    pthread_mutex_unlock(&lock);
    return r;
}

struct dirent *readdir(DIR *d) {
    /* on LP64 Linux struct dirent and struct dirent64 have the same layout */
    return (struct dirent *)readdir64(d);
}

int closedir(DIR *d) {
    static int (*real)(DIR *);
    if (!real) real = dlsym(RTLD_NEXT, "closedir");
    pthread_mutex_lock(&lock);
    io_dir_tracked(d, 1);
    for (struct dirbuf **p = &dirs; *p; p = &(*p)->next) {
        if ((*p)->dir == d) {
            struct dirbuf *b = *p;
            *p = b->next;
            free(b->ents);
            free(b);
            break;
        }
    }
    pthread_mutex_unlock(&lock);
    return real(d);
}

/* --------------------------------------------------------------- CPU count */
static int cpus = -1;
static void cpus_init(void) {
    uint64_t v;
    cpus = env_u64("VERIF_ENV_CPUS", &v) ? (int)v : 0;
    if (cpus > CPU_SETSIZE) cpus = CPU_SETSIZE;
}

int sched_getaffinity(pid_t pid, size_t size, cpu_set_t *mask) {
    static int (*real)(pid_t, size_t, cpu_set_t *);
    if (!real) real = dlsym(RTLD_NEXT, "sched_getaffinity");
    if (cpus < 0) cpus_init();
    if (cpus == 0) return real(pid, size, mask);
    memset(mask, 0, size);
    for (int i = 0; i < cpus && (size_t)i < size * 8; i++) CPU_SET_S(i, size, mask);
    __sync_fetch_and_add(&n_affinity, 1);
    return 0;
}

long sysconf(int name) {
    static long (*real)(int);
    if (!real) real = dlsym(RTLD_NEXT, "sysconf");
    if (name == _SC_NPROCESSORS_ONLN || name == _SC_NPROCESSORS_CONF) {
        if (cpus < 0) cpus_init();
        if (cpus > 0) return cpus;
    }
    return real(name);
}

/* -------------------------------------------------------------------- clock */
static int clock_on = -1;
static int64_t clock_off_ms;
static uint64_t clock_jump_ms, clock_every;
static uint64_t clock_reads, clock_acc_ms;

int clock_gettime(clockid_t id, struct timespec *ts) {
    static int (*real)(clockid_t, struct timespec *);
    if (!real) real = dlsym(RTLD_NEXT, "clock_gettime");
    int r = real(id, ts);
    if (r != 0) return r;
    pthread_mutex_lock(&lock);
    if (clock_on < 0) {
        uint64_t v;
        clock_on = 0;
        if (env_u64("VERIF_ENV_CLOCK_OFFSET_MS", &v)) { clock_off_ms = (int64_t)v; clock_on = 1; }
        if (env_u64("VERIF_ENV_CLOCK_JUMP_MS", &v)) { clock_jump_ms = v; clock_on = 1; }
        if (!env_u64("VERIF_ENV_CLOCK_JUMP_EVERY", &clock_every) || clock_every == 0) clock_every = 1;
    }
    if (clock_on && (id == CLOCK_MONOTONIC || id == CLOCK_REALTIME || id == CLOCK_MONOTONIC_RAW || id == CLOCK_BOOTTIME)) {
        n_clock++;
        if (++clock_reads % clock_every == 0) clock_acc_ms += clock_jump_ms;
        int64_t add = clock_off_ms + (int64_t)clock_acc_ms;
        ts->tv_sec += add / 1000;
        ts->tv_nsec += (add % 1000) * 1000000L;
        if (ts->tv_nsec >= 1000000000L) { ts->tv_sec++; ts->tv_nsec -= 1000000000L; }
    }
    pthread_mutex_unlock(&lock);
    return r;
}

/* -------------------------------------------------------------- write faults */
#include <sys/stat.h>
#include <spawn.h>
static int wf_init = 0;
static uint64_t wf_fail_at, wf_errno = 32, wf_short_every;
static uint64_t of_fail_at, of_errno = 28, of_short_every;
static unsigned long n_pipe_writes, n_write_faults, n_short_writes, n_spawns, n_spawn_faults;
static unsigned long n_file_writes, n_file_write_faults, n_file_short_writes;

ssize_t write(int fd, const void *buf, size_t count) {
    static ssize_t (*real)(int, const void *, size_t);
    if (!real) real = dlsym(RTLD_NEXT, "write");
    if (!wf_init) {
        pthread_mutex_lock(&lock);
        if (!wf_init) {
            env_u64("VERIF_ENV_WRITE_FAIL_AT", &wf_fail_at);
            env_u64("VERIF_ENV_WRITE_ERRNO", &wf_errno);
            env_u64("VERIF_ENV_WRITE_SHORT_EVERY", &wf_short_every);
            env_u64("VERIF_ENV_OWRITE_FAIL_AT", &of_fail_at);
            env_u64("VERIF_ENV_OWRITE_ERRNO", &of_errno);
            env_u64("VERIF_ENV_OWRITE_SHORT_EVERY", &of_short_every);
            wf_init = 1;
        }
        pthread_mutex_unlock(&lock);
    }
    if ((wf_fail_at || wf_short_every) && fd > 2 && count > 0) {
        struct stat st;
        if (fstat(fd, &st) == 0 && S_ISFIFO(st.st_mode)) {
            unsigned long k = __sync_add_and_fetch(&n_pipe_writes, 1);
            if (wf_fail_at && k == wf_fail_at) {
                __sync_fetch_and_add(&n_write_faults, 1);
                errno = (int)wf_errno;
                return -1;
            }
            if (wf_short_every && k % wf_short_every == 0 && count > 1) {
                __sync_fetch_and_add(&n_short_writes, 1);
                return real(fd, buf, count / 2);
            }
        }
    }
    if ((of_fail_at || of_short_every) && fd > 2 && count > 0) {
        struct stat st;
        if (fstat(fd, &st) == 0 && S_ISREG(st.st_mode)) {
            unsigned long k = __sync_add_and_fetch(&n_file_writes, 1);
            if (of_fail_at && k == of_fail_at) {
                __sync_fetch_and_add(&n_file_write_faults, 1);
                errno = (int)of_errno;
                return -1;
            }
            if (of_short_every && k % of_short_every == 0 && count > 1) {
                __sync_fetch_and_add(&n_file_short_writes, 1);
                return real(fd, buf, count / 2);
            }
        }
    }
    return real(fd, buf, count);
}

/* --------------------------------------------------------------- spawn faults */
static int sf_init = 0;
static uint64_t sf_fail_at, sf_errno = 11;
static int spawn_fault(void) {
    if (!sf_init) {
        pthread_mutex_lock(&lock);
        if (!sf_init) {
            env_u64("VERIF_ENV_SPAWN_FAIL_AT", &sf_fail_at);
            env_u64("VERIF_ENV_SPAWN_ERRNO", &sf_errno);
            sf_init = 1;
        }
        pthread_mutex_unlock(&lock);
    }
    unsigned long k = __sync_add_and_fetch(&n_spawns, 1);
    if (sf_fail_at && k == sf_fail_at) {
        __sync_fetch_and_add(&n_spawn_faults, 1);
        return (int)sf_errno;
    }
    return 0;
}

int posix_spawnp(pid_t *pid, const char *file, const posix_spawn_file_actions_t *fa, const posix_spawnattr_t *attr,
                 char *const argv[], char *const envp[]) {
    static int (*real)(pid_t *, const char *, const posix_spawn_file_actions_t *, const posix_spawnattr_t *, char *const[], char *const[]);
    if (!real) real = dlsym(RTLD_NEXT, "posix_spawnp");
    int e = spawn_fault();
    if (e) return e;
    return real(pid, file, fa, attr, argv, envp);
}

int posix_spawn(pid_t *pid, const char *path, const posix_spawn_file_actions_t *fa, const posix_spawnattr_t *attr,
                char *const argv[], char *const envp[]) {
    static int (*real)(pid_t *, const char *, const posix_spawn_file_actions_t *, const posix_spawnattr_t *, char *const[], char *const[]);
    if (!real) real = dlsym(RTLD_NEXT, "posix_spawn");
    int e = spawn_fault();
    if (e) return e;
    return real(pid, path, fa, attr, argv, envp);
}

/* ------------------------------------------------------- constructor / exit */
static void report(void) {
    const char *p = getenv("VERIF_ENV_LOG");
    if (!p) return;
    FILE *f = fopen(p, "a");
    if (!f) return;
    fprintf(f, "pid=%d getrandom=%lu readdir=%lu dirs=%lu affinity=%lu clock=%lu pipewrites=%lu writefaults=%lu shortwrites=%lu spawns=%lu spawnfaults=%lu ioops=%lu iofaults=%lu shortreads=%lu readeintr=%lu filewrites=%lu filewritefaults=%lu fileshortwrites=%lu\n",
            (int)getpid(), n_getrandom, n_readdir, n_dirs, n_affinity, n_clock, n_pipe_writes, n_write_faults, n_short_writes,
            n_spawns, n_spawn_faults, n_io_ops, n_io_faults, n_short_reads, n_read_eintr, n_file_writes, n_file_write_faults, n_file_short_writes);
    fclose(f);
}

__attribute__((constructor)) static void init(void) {
    uint64_t pad;
    if (env_u64("VERIF_ENV_HEAP_PAD", &pad) && pad > 0) {
        volatile char *leak = malloc((size_t)pad);
        if (leak) leak[0] = 1;
    }
    atexit(report);
}
